#!/bin/bash
# Run checks against a seeded change applied to /repo, then undo it.  usage: run_against_seeded.sh <seed-id> <Cxx> [more checks...]
ID="$1"; shift
cd /verif
git -C /repo status --short | grep -v '^??' | grep -q . && { echo "/repo has uncommitted tracked changes: refusing"; exit 2; }
git -C /repo apply "/verif/seeded/$ID/patch.diff" || { echo "patch does not apply"; exit 2; }
for P in "$@"; do
  T="quick"; [[ "$P" == *:thorough ]] && { T="thorough"; P="${P%%:*}"; }
  OUT=$(./check "$P" --tier "$T" --no-evidence 2>&1)
  RC=$?
  echo "== $ID vs $P ($T): exit $RC"
  echo "$OUT" | grep -E "^  [a-z_]+ \| |leasim\] C|HARNESS-DEGRADED" | head -8
done
git -C /repo checkout -- .
git -C /repo status --short | grep -v '^??'
