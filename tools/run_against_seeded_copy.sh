#!/bin/bash
# Like run_against_seeded.sh but on a scratch copy of /repo/src (LEASIM_SRC), leaving /repo untouched (usable while a soak reads /repo).
# usage: run_against_seeded_copy.sh <seed-id> <Cxx[:thorough]> [more checks...]
ID="$1"; shift
cd /verif
W="/tmp/seedsrc_$ID"; rm -rf "$W"; mkdir -p "$W"; cp -r /repo/src "$W/src"
patch -s -p1 -d "$W" < "/verif/seeded/$ID/patch.diff" || { echo "patch does not apply"; rm -rf "$W"; exit 2; }
for P in "$@"; do
  T="quick"; [[ "$P" == *:thorough ]] && { T="thorough"; P="${P%%:*}"; }
  OUT=$(LEASIM_SRC="$W/src" ./check "$P" --tier "$T" --no-evidence 2>&1)
  RC=$?
  echo "== $ID vs $P ($T): exit $RC"
  echo "$OUT" | grep -E "^  [a-z_]+ \| |leasim\] C|HARNESS-DEGRADED" | head -8
done
rm -rf "$W"
