#!/bin/bash
# Re-check a seeded change independently: demo passes on HEAD, fails with the patch, test suite passes with the patch.
# usage: verify_seeded.sh <seed-id> <dir holding patch.diff and demo.py> [--skip-tests]
set -u
ID="$1"; SRC="$2"; SKIP="${3:-}"
WT="/tmp/vs_$ID"
rm -rf "$WT"; git -C /repo worktree prune
git -C /repo worktree add -q --detach "$WT" HEAD || exit 2
mkdir -p "/verif/seeded/$ID"
cp "$SRC/patch.diff" "$SRC/demo.py" "/verif/seeded/$ID/" || exit 2
cd "$WT"
cp "/verif/seeded/$ID/demo.py" "$WT/demo.py"
sed -i "s#/tmp/wt_[A-Za-z0-9]*#$WT#g; s#/tmp/sa3_[A-Za-z0-9]*#$WT#g; s#/tmp/sa4_[A-Za-z0-9]*#$WT#g; s#/tmp/sa5_[A-Za-z0-9]*#$WT#g; s#/tmp/sa6_[A-Za-z0-9]*#$WT#g; s#/tmp/sa7_[A-Za-z0-9]*#$WT#g; s#/tmp/sa8_[A-Za-z0-9]*#$WT#g; s#/tmp/sa9_[A-Za-z0-9]*#$WT#g; s#/tmp/sa10_[A-Za-z0-9]*#$WT#g" "$WT/demo.py"
run_demo() { (cd "$WT" && OMP_NUM_THREADS=1 PYTHONPATH="$WT/src" timeout 900 /venv/bin/python "$WT/demo.py" > "/tmp/vs_${ID}_demo_$1.log" 2>&1; echo $?); }
D0=$(run_demo clean)
git apply "/verif/seeded/$ID/patch.diff" || { echo "PATCH DOES NOT APPLY"; exit 2; }
D1=$(run_demo patched)
echo "demo exit: clean=$D0 patched=$D1"
T="skipped"
if [ "$SKIP" != "--skip-tests" ]; then
  OMP_NUM_THREADS=1 MKL_NUM_THREADS=1 PYTHONPATH="$WT/src" timeout 3000 /venv/bin/python -m pytest -q -p no:cacheprovider --timeout=900 > "/tmp/vs_${ID}_tests.log" 2>&1
  T=$(tail -1 "/tmp/vs_${ID}_tests.log")
fi
echo "tests: $T"
cd /; git -C /repo worktree remove --force "$WT"
