#!/usr/bin/env python3
"""Print python sources with docstrings stripped (reading aid)."""
import ast, sys
for fn in sys.argv[1:]:
    tree = ast.parse(open(fn).read())
    for node in ast.walk(tree):
        if isinstance(node, (ast.FunctionDef, ast.ClassDef, ast.AsyncFunctionDef, ast.Module)):
            b = node.body
            if b and isinstance(b[0], ast.Expr) and isinstance(getattr(b[0], "value", None), ast.Constant) and isinstance(b[0].value.value, str):
                node.body = b[1:] or [ast.Pass()]
    print("#" * 30, fn)
    print(ast.unparse(tree))
