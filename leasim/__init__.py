"""leasim — deterministic simulation with fault injection for aramis-lab/leaspy.

See /verif/DESIGN.md.  Everything here is driven by one integer (VERIF_SEED).
"""
