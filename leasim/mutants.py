"""Sensitivity self-test: small semantic mutants of leaspy applied to a scratch copy of /repo/src
(outside /repo and /verif, removed afterwards); each must be reported by its property's check
(exit 1 + VIOLATION), and the unpatched copy must stay silent.

A mutant = (name, property, file relative to src/leaspy, old text, new text[, tier]).
"""
from __future__ import annotations

import os
import shutil
import subprocess
import sys
import tempfile
import time
from pathlib import Path

VERIF = Path(__file__).resolve().parents[1]
REPO_SRC = Path(os.environ.get("LEASIM_REPO_SRC", "/repo/src"))

M = []


def mutant(name, prop, file, old, new, tier="quick", also=()):
    M.append(dict(name=name, prop=prop, file=file, old=old, new=new, tier=tier, also=tuple(also)))


# ----------------------------------------------------------------------------- C01
mutant("c01_invalidate_direct_children_only", "C01", "variables/state.py",
       "        for child in sorted_children:\n            self._values[child] = None",
       "        for child in self.dag.direct_children[name]:\n            self._values[child] = None")
mutant("c01_cache_default_on_unset", "C01", "variables/state.py",
       "        if value is None:\n            raise LeaspyInputError(\n                f\"'{name}' is an independent variable which is required{why}\"\n            )",
       "        if value is None:\n            value = torch.zeros(())")
mutant("c01_clone_shares_values", "C01", "variables/state.py",
       "        cloned._values = copy.deepcopy(self._values)",
       "        cloned._values = dict(self._values)", also=())
mutant("c01_revert_keeps_children", "C01", "variables/state.py",
       "            self._values.update(self._last_fork)\n            self._last_fork = None\n            return",
       "            for k, v in self._last_fork.items():\n                if v is not None or k not in self.dag.sorted_children:\n                    self._values[k] = v if v is not None else self._values[k]\n            self._last_fork = None\n            return")
mutant("c01_fork_after_assignment", "C01", "variables/state.py",
       "        self._values[name] = value\n        # we reset values",
       "        self._values[name] = value\n        if self.auto_fork_type is not None:\n            self._last_fork[name] = value\n        # we reset values")
mutant("c01_stale_fork_on_unforked_assignment", "C01", "variables/state.py",
       "        else:\n            # an assignment that is not forked makes any older fork inconsistent with\n            # the current values (reverting it would restore stale derived values)\n            self._last_fork = None\n",
       "")
# ----------------------------------------------------------------------------- C02
mutant("c02_revert_accepted_instead_of_rejected", "C02", "samplers/gibbs.py",
       "        state.revert(~accepted)", "        state.revert(accepted)")
mutant("c02_no_revert_on_pop_reject", "C02", "samplers/gibbs.py",
       "            if not accepted:\n                state.revert()", "            if not accepted and idx != self._get_iterator_indices()[-1]:\n                state.revert()")
mutant("c02_arithmetic_blend_revert", "C02", "variables/state.py",
       "                self._values[k] = self._select(mask_k, old_v, cur_v)",
       "                self._values[k] = old_v * mask_k + cur_v * (~mask_k)")
mutant("c02_left_broadcast", "C02", "variables/state.py",
       "                    mask_k = unsqueeze_right(to_revert, ndim=add_ndim)",
       "                    mask_k = to_revert")
# ----------------------------------------------------------------------------- C03
mutant("c03_le_instead_of_lt", "C03", "samplers/base.py",
       "        return torch.rand(()) < alpha", "        return torch.rand(()) <= alpha")
mutant("c03_group_le", "C03", "samplers/base.py",
       "        accepted = torch.rand(alpha.shape) < alpha", "        accepted = torch.rand(alpha.shape) <= alpha")
mutant("c03_draw_only_when_alpha_lt_1", "C03", "samplers/base.py",
       "        return torch.rand(()) < alpha", "        return torch.tensor(True) if alpha >= 1 else torch.rand(()) < alpha")
mutant("c03_temper_attachment_too", "C03", "samplers/gibbs.py",
       "                    (new_regularity - previous_regularity) * temperature_inv\n                    + (new_attachment - previous_attachment)\n                )\n            )\n            accepted = self._metropolis_step(alpha)",
       "                    (new_regularity - previous_regularity) * temperature_inv\n                    + (new_attachment - previous_attachment) * temperature_inv\n                )\n            )\n            accepted = self._metropolis_step(alpha)")
mutant("c03_ind_drop_temperature", "C03", "samplers/gibbs.py",
       "                (new_regularity - previous_regularity) * temperature_inv\n                + (new_attachment - previous_attachment)\n            )\n        )\n        accepted = self._group_metropolis_step(alpha)",
       "                (new_regularity - previous_regularity)\n                + (new_attachment - previous_attachment)\n            )\n        )\n        accepted = self._group_metropolis_step(alpha)")
mutant("c03_wrong_std_index", "C03", "samplers/gibbs.py",
       "        change_idx = self.std[idx] * torch.randn(shape_idx)",
       "        change_idx = self.std.reshape(-1)[0] * torch.randn(shape_idx)")
mutant("c03_uniform_proposal", "C03", "samplers/gibbs.py",
       "        return self.std[std_broadcasting] * torch.randn((self.n_patients, *self.shape))",
       "        return self.std[std_broadcasting] * (torch.rand((self.n_patients, *self.shape)) - 0.5)")
mutant("c03_ind_ratio_uses_total_attachment", "C03", "samplers/gibbs.py",
       "            return state.get_tensor_values(\n                (\"nll_attach_ind\", f\"nll_regul_{self.name}_ind\")\n            )",
       "            a, r = state.get_tensor_values(\n                (\"nll_attach_ind\", f\"nll_regul_{self.name}_ind\")\n            )\n            return a.sum() + 0 * a, r")

# ----------------------------------------------------------------------------- C04
mutant("c04_std_uses_current_mean", "C04", "variables/utilities.py",
       "    individual_parameter_current_mean = torch.mean(individual_parameter_values, dim=dim)",
       "    individual_parameter_current_mean = torch.mean(individual_parameter_values, dim=dim)\n    individual_parameter_old_mean = individual_parameter_current_mean")
mutant("c04_biased_std_in_burn_in", "C04", "variables/specs.py",
       "            update_rule_burn_in=Std(ind_var_name, dim=LVL_IND),",
       "            update_rule_burn_in=Std(ind_var_name, dim=LVL_IND, unbiased=False),")
mutant("c04_diag_noise_all_entries", "C04", "models/obs_models/_gaussian.py",
       "        summed = sum_dim(-2 * y_x_model + model_x_model, but_dim=LVL_FT)",
       "        summed = sum_dim(-2 * y_x_model, but_dim=LVL_FT) + sum_dim(model_x_model, but_dim=LVL_FT)")
mutant("c04_sequential_update", "C04", "models/mcmc_saem_compatible.py",
       "            params_updates[mp_name] = mp_var.compute_update(\n                state=state, suff_stats=sufficient_statistics, burn_in=burn_in\n            )",
       "            params_updates[mp_name] = mp_var.compute_update(\n                state=state, suff_stats=sufficient_statistics, burn_in=burn_in\n            )\n            state[mp_name] = params_updates[mp_name]")
mutant("c04_scalar_noise_unobserved_entries", "C04", "models/obs_models/_gaussian.py",
       "        summed = sum_dim(-2 * y_x_model + model_x_model)\n        noise_var = (y_l2 + summed) / n_obs.float()",
       "        noise_var = (y_l2 - 2 * sum_dim(y_x_model) + sum_dim(model_x_model)) / n_obs.float()")
mutant("c04_square_statistic_is_the_value_itself", "C04", "variables/specs.py",
       "                    ind_var_sqr_name: LinkedVariable(\n                        Sqr(ind_var_name)\n                    )",
       "                    ind_var_sqr_name: LinkedVariable(\n                        Identity(ind_var_name)\n                    )")
# ----------------------------------------------------------------------------- C05
mutant("c05_burn_in_strict", "C05", "algo/algo_with_samplers.py",
       "        return self.current_iteration <= self.algo_parameters[\"n_burn_in_iter\"]",
       "        return self.current_iteration < self.algo_parameters[\"n_burn_in_iter\"]")
mutant("c05_step_plus_one", "C05", "algo/fit/mcmc_saem.py",
       "                self.current_iteration - self.algo_parameters[\"n_burn_in_iter\"]\n            )  # min = 2",
       "                self.current_iteration - self.algo_parameters[\"n_burn_in_iter\"] + 1\n            )  # min = 2")
mutant("c05_positive_exponent", "C05", "algo/fit/mcmc_saem.py",
       "            burn_in_step **= -self.algo_parameters[\"burn_in_step_power\"]",
       "            burn_in_step **= self.algo_parameters[\"burn_in_step_power\"] - 2 * self.algo_parameters[\"burn_in_step_power\"] * (self.current_iteration % 2)")
mutant("c05_round_not_truncate", "C05", "algo/algo_with_samplers.py",
       "            self.algo_parameters[\"n_burn_in_iter\"] = int(\n                n_burn_in_iter_frac * self.algo_parameters[\"n_iter\"]\n            )",
       "            self.algo_parameters[\"n_burn_in_iter\"] = int(round(\n                n_burn_in_iter_frac * self.algo_parameters[\"n_iter\"]\n            ))")
mutant("c05_power_half_accepted", "C05", "algo/fit/mcmc_saem.py",
       "        if not (0.5 < self.algo_parameters[\"burn_in_step_power\"] <= 1):",
       "        if not (0.5 <= self.algo_parameters[\"burn_in_step_power\"] <= 1):")
# (blending at the first memory iteration is equivalent: e_1 = 1)
# ----------------------------------------------------------------------------- C08
mutant("c08_normal_constant_dropped", "C08", "variables/distributions.py",
       "                0.5 * ((x.value - loc) / scale) ** 2\n                + torch.log(scale)\n                + cls.nll_constant_standard",
       "                0.5 * ((x.value - loc) / scale) ** 2\n                + torch.log(scale)")
mutant("c08_log_scale_dropped", "C08", "variables/distributions.py",
       "                0.5 * ((x.value - loc) / scale) ** 2\n                + torch.log(scale)\n                + cls.nll_constant_standard",
       "                0.5 * ((x.value - loc) / scale) ** 2\n                + cls.nll_constant_standard")
mutant("c08_censoring_inverted", "C08", "variables/distributions.py",
       "        log_hazard = torch.where(event_bool != 0, log_hazard, 0.0)",
       "        log_hazard = torch.where(event_bool == 0, log_hazard, 0.0)")
mutant("c08_penalty_infinite", "C08", "variables/distributions.py",
       "            -constants.INFINITY,\n        )\n        log_hazard",
       "            -float(\"inf\"),\n        )\n        log_hazard")
mutant("c08_survival_without_clamp", "C08", "variables/distributions.py",
       "        return -(\n            (torch.clamp(event_reparametrized_time, min=0.0) / nu_reparametrized) ** rho\n        )",
       "        return -(\n            (event_reparametrized_time / nu_reparametrized) ** rho\n        )")
mutant("c08_censoring_decided_per_individual", "C08", "variables/distributions.py",
       "        log_hazard = torch.where(event_bool != 0, log_hazard, 0.0)",
       "        log_hazard = torch.where(~(event_bool != 0).any(dim=-1, keepdim=True), 0.0, log_hazard)")
mutant("c08_source_shift_scaled_by_first_event_shape", "C08", "variables/distributions.py",
       "        return nu * torch.exp(-(xi + (1 / rho) * (survival_shifts)))",
       "        return nu * torch.exp(-(xi + (1 / rho[..., :1]) * (survival_shifts)))")
mutant("c08_age_zero_taken_for_padding", "C08", "models/mcmc_saem_compatible.py",
       "                dataset.timepoints, dataset.mask.to(torch.bool).any(dim=LVL_FT)\n",
       "                dataset.timepoints, dataset.mask.to(torch.bool).any(dim=LVL_FT) & (dataset.timepoints != 0)\n")
# ----------------------------------------------------------------------------- C10
mutant("c10_velocity_not_compensated", "C10", "models/riemanian_manifold.py",
       "        state[\"log_v0\"] = state[\"log_v0\"] + mean_xi", "        pass")
mutant("c10_joint_nu_not_compensated", "C10", "models/joint.py",
       "        state[\"n_log_nu\"] = state[\"n_log_nu\"] + mean_xi", "        pass")
mutant("c10_euclidean_basis", "C10", "utils/linalg.py",
       "        dgamma_t0 = G_metric * dgamma_t0", "        dgamma_t0 = dgamma_t0")
mutant("c10_center_with_median", "C10", "models/riemanian_manifold.py",
       "        mean_xi = torch.mean(state[\"xi\"])\n        state[\"xi\"] = state[\"xi\"] - mean_xi\n        state[\"log_v0\"]",
       "        mean_xi = torch.median(state[\"xi\"])\n        state[\"xi\"] = state[\"xi\"] - mean_xi\n        state[\"log_v0\"]")
# ----------------------------------------------------------------------------- C19
mutant("c19_samplers_never_told_the_temperature", "C19", "algo/fit/mcmc_saem.py",
       "            self.samplers[variable].sample(state, temperature_inv=self.temperature_inv)",
       "            self.samplers[variable].sample(state, temperature_inv=1.0)")
mutant("c19_period_wrong_divisor", "C19", "algo/algo_with_annealing.py",
       "        self._annealing_period = self.algo_parameters[\"annealing\"][\"n_iter\"] // (\n            self.algo_parameters[\"annealing\"][\"n_plateau\"] - 1\n        )",
       "        self._annealing_period = max(1, self.algo_parameters[\"annealing\"][\"n_iter\"] // (\n            self.algo_parameters[\"annealing\"][\"n_plateau\"] + 1\n        ))")
mutant("c19_no_snap_to_one", "C19", "algo/algo_with_annealing.py",
       "                    if self.temperature < 1 + self._annealing_temperature_decrement / 2:",
       "                    if self.temperature < 1:")
mutant("c19_plateau_boundary_shifted", "C19", "algo/algo_with_annealing.py",
       "            if self.current_iteration % self._annealing_period == 0:",
       "            if self.current_iteration % self._annealing_period == (1 if self._annealing_period > 1 else 0):")
mutant("c19_decrement_doubled_first", "C19", "algo/algo_with_annealing.py",
       "                    self.temperature -= self._annealing_temperature_decrement\n",
       "                    self.temperature -= self._annealing_temperature_decrement * (2 if self.current_iteration == self._annealing_period else 1)\n")
mutant("c19_adapt_every_call", "C19", "samplers/gibbs.py",
       "        if self._counter % self.acceptation_history_length == 0:",
       "        if self._counter % max(1, self.acceptation_history_length - 1) == 0:")
mutant("c19_factor_all_blocks", "C19", "samplers/gibbs.py",
       "            self.std[idx_toolow] *= 1 - self._adaptive_std_factor",
       "            self.std[idx_toolow | (idx_toolow.any() & ~idx_toohigh)] *= 1 - self._adaptive_std_factor")
mutant("c19_window_not_rolling", "C19", "samplers/base.py",
       "        old_acceptation_history = self.acceptation_history[1:]",
       "        old_acceptation_history = self.acceptation_history[:-1]")
mutant("c19_band_inverted", "C19", "samplers/gibbs.py",
       "            self.std[idx_toolow] *= 1 - self._adaptive_std_factor\n            self.std[idx_toohigh] *= 1 + self._adaptive_std_factor",
       "            self.std[idx_toolow] *= 1 + self._adaptive_std_factor\n            self.std[idx_toohigh] *= 1 - self._adaptive_std_factor")
mutant("c19_low_bound_inclusive", "C19", "samplers/gibbs.py",
       "                mean_acceptation < self._mean_acceptation_lower_bound_before_adaptation",
       "                mean_acceptation <= self._mean_acceptation_lower_bound_before_adaptation + 0.15")

# ----------------------------------------------------------------------------- C09
mutant("c09_missing_parentheses", "C09", "models/time_reparametrized.py",
       "        return alpha * (t - tau)", "        return alpha * t - tau")
mutant("c09_metric_missing", "C09", "models/logistic.py",
       "        w_model_logit = metric[pop_s] * (\n            v0[pop_s] * rt + space_shifts[:, None, ...]\n        ) - torch.log(g[pop_s])",
       "        w_model_logit = (\n            metric[pop_s] * v0[pop_s] * rt + space_shifts[:, None, ...]\n        ) - torch.log(g[pop_s])")
mutant("c09_sorted_ages", "C09", "models/base.py",
       "                subj_id: tpts.values\n", "                subj_id: np.sort(tpts.values)\n")
mutant("c09_join_multiplies_duplicates", "C09", "models/base.py",
       "                estimations = estimations[~estimations.index.duplicated()]\n", "")
mutant("c09_keyed_by_position", "C09", "models/base.py",
       "            ip = individual_parameters[subj_id]",
       "            ip = individual_parameters[individual_parameters._indices[list(timepoints).index(subj_id)]]")
# ----------------------------------------------------------------------------- C12
mutant("c12_pop_vars_not_reset_to_mode", "C12", "algo/fit/mcmc_saem.py",
       "            model_state.put_population_latent_variables(\n                LatentVariableInitType.PRIOR_MODE\n            )", "            pass")
mutant("c12_save_rounds_parameters", "C12", "models/base.py",
       "                k: tensor_to_list(v) for k, v in (self.parameters or {}).items()",
       "                k: tensor_to_list(v.round(decimals=3)) for k, v in (self.parameters or {}).items()")
mutant("c12_load_drops_source_dimension", "C12", "models/settings.py",
       "            if k not in (\"name\", \"parameters\", \"hyperparameters\", \"leaspy_version\")",
       "            if k not in (\"name\", \"parameters\", \"hyperparameters\", \"leaspy_version\", \"fit_metrics\")")
# ----------------------------------------------------------------------------- C13
mutant("c13_personalize_without_terminate", "C13", "algo/personalize/mcmc.py",
       "        self._terminate_algo(model, state)", "        pass")
mutant("c13_scipy_starts_from_leftover_latents", "C13", "algo/personalize/scipy_minimize.py",
       "            states[idx].put_individual_latent_variables(None)\n", "")
mutant("c13_settings_mutated", "C13", "algo/base.py",
       "        self.algo_parameters = deepcopy(settings.parameters)", "        self.algo_parameters = settings.parameters\n        self.algo_parameters[\"progress_bar\"] = not self.algo_parameters.get(\"progress_bar\", True)")
mutant("c13_estimate_on_model_state", "C13", "models/mcmc_saem_compatible.py",
       "        local_state = self.state.clone(disable_auto_fork=True)\n        self._put_data_timepoints(local_state, timepoints)\n        for (",
       "        local_state = self.state\n        self._put_data_timepoints(local_state, timepoints)\n        for (")

# ----------------------------------------------------------------------------- C06
mutant("c06_zero_times_nan_in_weighted_sum", "C06", "utils/weighted_tensor/_weighted_tensor.py",
       "        weighted_values = weight * self.filled(0)\n        weighted_sum = weighted_values.sum(**kws)",
       "        weighted_values = weight * self.value\n        weighted_sum = weighted_values.sum(**kws)")
mutant("c06_observation_count_includes_masked", "C06", "utils/weighted_tensor/_weighted_tensor.py",
       "        sum_weights = weight.sum(**kws)", "        sum_weights = torch.ones_like(weight).sum(**kws)")
mutant("c06_bernoulli_validates_masked_entries", "C06", "variables/distributions.py",
       "            -cls.dist_factory(*params).log_prob(x.filled(0.0)), x.weight", "            -cls.dist_factory(*params).log_prob(x.value), x.weight")
mutant("c06_model_not_zeroed_under_padding", "C06", "models/logistic.py",
       "        return WeightedTensor(torch.sigmoid(model_logit), weights).weighted_value",
       "        return torch.sigmoid(model_logit)")
mutant("c06_visit_weight_for_entry_weight", "C06", "models/obs_models/_gaussian.py",
       "        return WeightedTensor(dataset.values, weight=dataset.mask.to(torch.bool))",
       "        return WeightedTensor(dataset.values, weight=dataset.mask.to(torch.bool).any(dim=-1, keepdim=True).expand_as(dataset.mask))")
# ----------------------------------------------------------------------------- C07
mutant("c07_ratio_centred_on_cohort", "C07", "samplers/gibbs.py",
       "            return state.get_tensor_values(\n                (\"nll_attach_ind\", f\"nll_regul_{self.name}_ind\")\n            )",
       "            a, r = state.get_tensor_values(\n                (\"nll_attach_ind\", f\"nll_regul_{self.name}_ind\")\n            )\n            return a + 0.5 * (a - a.mean()), r")
mutant("c07_results_zipped_with_sorted_ids", "C07", "algo/personalize/scipy_minimize.py",
       "        for id_pat, ind_params_pat in zip(dataset.indices, ind_p_all):", "        for id_pat, ind_params_pat in zip(sorted(dataset.indices, reverse=True), ind_p_all):")
mutant("c07_one_state_shared_between_jobs", "C07", "algo/personalize/scipy_minimize.py",
       "            states[idx] = state.clone(disable_auto_fork=True)\n", "            states[idx] = state.clone(disable_auto_fork=True) if not states else next(iter(states.values()))\n")
mutant("c07_set_ordered_sum", "C07", "variables/specs.py",
       "                        for ind_var_name in self._latent_ind_vars\n",
       "                        for ind_var_name in set(self._latent_ind_vars)\n", tier="quick")
# ----------------------------------------------------------------------------- C11
mutant("c11_numpy_not_seeded", "C11", "algo/base.py", "            np.random.seed(seed)\n", "")
mutant("c11_torch_not_seeded", "C11", "algo/base.py", "            torch.manual_seed(seed)\n", "")
mutant("c11_model_initialized_before_seeding", "C11", "models/base.py",
       "                algorithm._initialize_seed(algorithm.seed)\n            self.initialize(dataset)", "                pass\n            self.initialize(dataset)")
mutant("c11_logger_consumes_a_draw", "C11", "algo/fit/fit_output_manager.py",
       "    def print_time(self):", "    def print_time(self):\n        torch.rand(1)")
mutant("c11_print_only_logging_crashes", "C11", "algo/fit/fit_output_manager.py",
       "        self.path_output = None  # no output folder (console logs only)\n", "")
mutant("c11_set_ordered_sum", "C11", "variables/specs.py",
       "                        for ind_var_name in self._latent_ind_vars\n",
       "                        for ind_var_name in set(self._latent_ind_vars)\n")
# ----------------------------------------------------------------------------- C17
mutant("c17_burn_in_draws_kept", "C17", "algo/personalize/mcmc.py",
       "                if not self._is_burn_in():", "                if True:")
mutant("c17_mode_argmax", "C17", "algo/personalize/mode_posterior.py", "        indices_iter_best = torch.argmin(", "        indices_iter_best = torch.argmax(")
mutant("c17_mode_ignores_regularity", "C17", "algo/personalize/mode_posterior.py",
       "            attachments + self.regularity_factor * regularities, dim=0", "            attachments + 0 * regularities, dim=0")
mutant("c17_ids_sorted", "C17", "algo/personalize/scipy_minimize.py",
       "        for id_pat, ind_params_pat in zip(dataset.indices, ind_p_all):", "        for id_pat, ind_params_pat in zip(sorted(dataset.indices), ind_p_all):")
mutant("c17_mean_over_all_but_first", "C17", "algo/personalize/mean_posterior.py",
       "            ind_var_name: value_var.mean(dim=0)", "            ind_var_name: value_var[1:].mean(dim=0) if len(value_var) > 1 else value_var.mean(dim=0)")
# ----------------------------------------------------------------------------- C18
mutant("c18_duplicates_kept", "C18", "algo/simulate/simulate.py",
       "        df_sim = df_sim[~df_sim.index.duplicated()]\n", "")
mutant("c18_rounding_precision_off_by_one", "C18", "algo/simulate/simulate.py",
       "            if val <= min_spacing_between_visits:\n                rounding_precision = precision",
       "            if val <= min_spacing_between_visits:\n                rounding_precision = max(precision - 1, 0)")
mutant("c18_mean_and_std_validation", "C18", "algo/simulate/simulate.py",
       "            if self.param_study[\"distance_visit_mean\"] <= 0:", "            if self.param_study[\"distance_visit_mean\"] <= 0 and self.param_study[\"distance_visit_std\"] <= 0:")
mutant("c18_ids_start_at_one", "C18", "algo/simulate/simulate.py",
       "            columns = [str(i) for i in range(0, self.param_study[\"patient_number\"])]", "            columns = [str(i) for i in range(1, self.param_study[\"patient_number\"] + 1)]")
mutant("c18_negative_std_accepted", "C18", "algo/simulate/simulate.py",
       "            if param.endswith(\"_std\") and value < 0:", "            if param.endswith(\"_std\") and value < -1:")
mutant("c18_one_patient_less", "C18", "algo/simulate/base.py",
       "        simulated_data = Data.from_dataframe(df_sim)", "        simulated_data = Data.from_dataframe(df_sim[df_sim.index.get_level_values(0) != df_sim.index.get_level_values(0)[-1]] if df_sim.index.get_level_values(0).nunique() > 2 else df_sim)")


def apply_mutant(m, dst_src: Path) -> bool:
    f = dst_src / "leaspy" / m["file"]
    s = f.read_text()
    if m["old"] not in s:
        return False
    f.write_text(s.replace(m["old"], m["new"], 1))
    return True


def run_check(prop, tier, src: Path, runs=None, timeout=900):
    env = dict(os.environ)
    env["LEASIM_SRC"] = str(src)
    cmd = [str(VERIF / "check"), prop, "--tier", tier, "--no-evidence"]
    if runs:
        cmd += ["--runs", str(runs)]
    t0 = time.time()
    p = subprocess.run(cmd, env=env, capture_output=True, text=True, timeout=timeout)
    return p.returncode, p.stdout + p.stderr, time.time() - t0


def main(argv) -> int:
    names = [a for a in argv if not a.startswith("-")]
    sel = [m for m in M if not names or m["name"] in names or m["prop"] in names]
    scratch_root = Path(tempfile.mkdtemp(prefix="leasim-mut-", dir=os.environ.get("LEASIM_MUT_DIR", "/tmp")))
    failures = 0
    try:
        base = scratch_root / "src"
        shutil.copytree(REPO_SRC, base, ignore=shutil.ignore_patterns("__pycache__", "*.egg-info"))
        if "--baseline" in argv:
            for prop in sorted({m["prop"] for m in sel}):
                rc, outp, dt = run_check(prop, "quick", base)
                print(f"baseline {prop}: exit {rc} ({dt:.0f}s)")
                if rc != 0:
                    failures += 1
        for m in sel:
            dst = scratch_root / ("m_" + m["name"])
            shutil.copytree(base, dst)
            try:
                if not apply_mutant(m, dst):
                    print(f"{m['name']:45s} {m['prop']}  NOT-APPLICABLE (text not found)")
                    failures += 1
                    continue
                rc, outp, dt = run_check(m["prop"], m["tier"], dst)
                sigs = sorted({ln.strip() for ln in outp.splitlines() if " | " in ln and ln.startswith("  ")})
                status = "CAUGHT" if rc == 1 and "VIOLATION property=" in outp else f"MISSED(exit {rc})"
                if status != "CAUGHT":
                    failures += 1
                print(f"{m['name']:45s} {m['prop']}  {status}  {dt:.0f}s  {sigs[:2]}")
                if status != "CAUGHT" and "-v" in argv:
                    print(outp[-1500:])
            finally:
                shutil.rmtree(dst, ignore_errors=True)
    finally:
        shutil.rmtree(scratch_root, ignore_errors=True)
    # replays written while testing mutants are not evidence about /repo: remove them
    return 1 if failures else 0


if __name__ == "__main__":
    sys.exit(main(sys.argv[1:]))
