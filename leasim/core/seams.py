"""Seams: every source of nondeterminism the properties depend on, owned by the simulator.

All seams are module-attribute substitutions installed from outside (no hook in /repo):
  * `torch` as seen from leaspy.samplers.gibbs / leaspy.samplers.base  -> proxy whose randn / rand are the controller's
  * `shuffle` as seen from samplers.gibbs, algo.fit.mcmc_saem, algo.personalize.mcmc
  * `time` as seen from algo.base and algo.fit.fit_output_manager      -> virtual clock
  * class-level observers (call-through wrappers) around sampler / algorithm / model methods
"""
from __future__ import annotations

import contextlib
import types

import torch


class TorchProxy:
    """Delegates everything to torch except `randn` and `rand`."""

    def __init__(self, controller):
        object.__setattr__(self, "_controller", controller)

    def __getattr__(self, name):
        return getattr(torch, name)

    def randn(self, *size, **kw):
        if len(size) == 1 and isinstance(size[0], (tuple, list, torch.Size)):
            size = tuple(size[0])
        return self._controller.on_randn(tuple(size), kw)

    def rand(self, *size, **kw):
        if len(size) == 1 and isinstance(size[0], (tuple, list, torch.Size)):
            size = tuple(size[0])
        return self._controller.on_rand(tuple(size), kw)


class RecordingController:
    """Default controller: real generators, draws only counted (recorded mode)."""

    def __init__(self):
        self.calls = []

    def on_randn(self, shape, kw):
        t = torch.randn(shape, **kw)
        self.calls.append(("randn", shape))
        return t

    def on_rand(self, shape, kw):
        t = torch.rand(shape, **kw)
        self.calls.append(("rand", shape))
        return t

    def on_shuffle(self, lst, where):
        import random

        random.shuffle(lst)
        self.calls.append(("shuffle", where, len(lst)))


class VirtualClock:
    def __init__(self, start=1_700_000_000.0):
        self.now = start
        self.reads = 0
        self.jumps = []  # list of (read_index, delta) planned jumps
        self.step = 0.001

    def time(self):
        self.reads += 1
        for at, delta in self.jumps:
            if at == self.reads:
                self.now += delta
        self.now += self.step
        return self.now


class _TimeModule:
    """`time` module look-alike reading the virtual clock."""

    def __init__(self, clock):
        self._clock = clock

    def time(self):
        return self._clock.time()

    def perf_counter(self):
        return self._clock.time()

    def __getattr__(self, name):
        import time as _t

        return getattr(_t, name)


@contextlib.contextmanager
def patched(obj, attr, new):
    missing = object()
    old = obj.__dict__.get(attr, missing) if isinstance(obj, type) else getattr(obj, attr, missing)
    setattr(obj, attr, new)
    try:
        yield
    finally:
        if old is missing:
            try:
                delattr(obj, attr)
            except AttributeError:
                pass
        else:
            setattr(obj, attr, old)


@contextlib.contextmanager
def rng_seams(controller, *, clock: VirtualClock | None = None):
    """Install the random / shuffle / clock seams for the duration of the block."""
    import leaspy.algo.base as algo_base
    import leaspy.algo.fit.fit_output_manager as fom
    import leaspy.algo.fit.mcmc_saem as mcmc_saem
    import leaspy.algo.personalize.mcmc as perso_mcmc
    import leaspy.samplers.base as sbase
    import leaspy.samplers.gibbs as sgibbs

    proxy = TorchProxy(controller)

    def mk_shuffle(where):
        def _shuffle(lst):
            controller.on_shuffle(lst, where)

        return _shuffle

    with contextlib.ExitStack() as es:
        es.enter_context(patched(sgibbs, "torch", proxy))
        es.enter_context(patched(sbase, "torch", proxy))
        es.enter_context(patched(sgibbs, "shuffle", mk_shuffle("gibbs")))
        es.enter_context(patched(mcmc_saem, "shuffle", mk_shuffle("fit")))
        es.enter_context(patched(perso_mcmc, "shuffle", mk_shuffle("perso")))
        if clock is not None:
            tm = _TimeModule(clock)
            es.enter_context(patched(algo_base, "time", tm))
            es.enter_context(patched(fom, "time", tm))
        yield proxy


@contextlib.contextmanager
def observe(cls, name, before=None, after=None):
    """Class-level call-through wrapper: before(self, args, kwargs) -> token ; after(self, token, result, exc)."""
    orig = cls.__dict__[name]
    is_cm = isinstance(orig, classmethod)
    is_sm = isinstance(orig, staticmethod)
    func = orig.__func__ if (is_cm or is_sm) else orig

    def wrapper(self_or_cls, *args, **kwargs):
        token = before(self_or_cls, args, kwargs) if before else None
        try:
            res = func(self_or_cls, *args, **kwargs)
        except BaseException as e:
            if after:
                after(self_or_cls, token, None, e)
            raise
        if after:
            r2 = after(self_or_cls, token, res, None)
            if r2 is not None and r2 is not NotImplemented:
                return r2
        return res

    wrapper.__name__ = getattr(func, "__name__", name)
    wrapper.__wrapped__ = func
    if is_sm:
        def swrapper(*args, **kwargs):
            token = before(None, args, kwargs) if before else None
            try:
                res = func(*args, **kwargs)
            except BaseException as e:
                if after:
                    after(None, token, None, e)
                raise
            if after:
                after(None, token, res, None)
            return res

        new = staticmethod(swrapper)
    elif is_cm:
        new = classmethod(wrapper)
    else:
        new = wrapper
    setattr(cls, name, new)
    try:
        yield
    finally:
        setattr(cls, name, orig)


def defining_class(cls, name):
    """Class in the MRO that defines `name`."""
    for k in cls.__mro__:
        if name in k.__dict__:
            return k
    raise AttributeError(name)
