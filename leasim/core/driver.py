"""Batch driver: seeded search over plans, known-finding triage, minimisation, replay, evidence.

Engine interface (a module):
    PROPERTY: str
    TIERS: {"quick": {"runs": int, "budget_s": float}, "thorough": {...}}
    make_plan(seed: int, tier: str) -> dict            (JSON-serialisable, pure function of seed/tier)
    run_plan(plan: dict) -> RunOutcome-like dict       (pure function of plan + code under test)
    shrink(plan: dict) -> iterator of smaller plans    (optional)
    DESCRIBE: dict(rule=..., real=[...], stub=[...], assumptions=[...], distinct_measure=...)
    REQUIRED_PROBES: list[str]                         (thorough tier: probe stuck at 0 -> exit 2)

Exit codes: 0 property held on everything explored (known findings printed),
            1 unlisted violation (VIOLATION line printed), 2 harness error / degraded.
"""
from __future__ import annotations

import concurrent.futures as cf
import faulthandler
import hashlib
import importlib
import json
import multiprocessing as mp
import os
import re
import sys
import time
import traceback
from collections import Counter
from pathlib import Path

from .rng import mix

VERIF = Path(__file__).resolve().parents[2]
EVIDENCE_DIR = VERIF / "evidence"
REPLAY_DIR = VERIF / "replays"
KNOWN_FINDINGS = VERIF / "known_findings.json"

ENGINES = {
    "C01": "leasim.engines.statesim",
    "C02": "leasim.engines.stepsim_c02",
    "C03": "leasim.engines.stepsim_c03",
    "C04": "leasim.engines.fitsim_c04",
    "C05": "leasim.engines.fitsim_c05",
    "C06": "leasim.engines.twinsim_c06",
    "C07": "leasim.engines.twinsim_c07",
    "C08": "leasim.engines.fitsim_c08",
    "C09": "leasim.engines.apisim_c09",
    "C10": "leasim.engines.fitsim_c10",
    "C11": "leasim.engines.procsim_c11",
    "C12": "leasim.engines.apisim_c12",
    "C13": "leasim.engines.apisim_c13",
    "C17": "leasim.engines.persosim_c17",
    "C18": "leasim.engines.gensim_c18",
    "C19": "leasim.engines.fitsim_c19",
}

RUN_TIMEOUT_S = float(os.environ.get("VERIF_RUN_TIMEOUT_S", "240"))


# --------------------------------------------------------------------------- outcome helpers
def new_outcome(plan: dict) -> dict:
    return {
        "seed": plan.get("seed"),
        "violations": [],   # [{"oracle":..., "sig":..., "detail":...}]
        "counters": Counter(),  # flat "group.name" -> int  (ops, steps, faults fired, probes hit ...)
        "keys": set(),      # distinctness keys (strings)
        "nontrivial": False,
        "digest": "",
        "discarded": None,  # reason string when the run is not attributable to the property
        "sample": None,
        "virtual_s": 0.0,
    }


def violation(out: dict, oracle: str, sig: str, detail: str = "") -> None:
    out["violations"].append({"oracle": oracle, "sig": sig, "detail": str(detail)[:2000]})


class EventLog:
    """Canonical event log with a running digest (no clock, no rng)."""

    def __init__(self, keep: int = 60):
        self.h = hashlib.sha256()
        self.n = 0
        self.tail = []
        self.keep = keep

    def add(self, *fields) -> None:
        s = "|".join(str(f) for f in fields)
        self.n += 1
        self.h.update(f"{self.n}:{s}\n".encode())
        self.tail.append(f"{self.n}:{s}"[:300])
        if len(self.tail) > self.keep:
            del self.tail[0]

    def digest(self) -> str:
        return self.h.hexdigest()[:24]


def tdigest(t) -> str:
    """Digest of a tensor / weighted tensor / None (bit pattern, shape, dtype)."""
    import torch

    if t is None:
        return "None"
    if hasattr(t, "weight") and hasattr(t, "value"):
        return "W(" + tdigest(t.value) + "," + tdigest(t.weight) + ")"
    if isinstance(t, torch.Tensor):
        a = t.detach().cpu().contiguous().numpy()
        return hashlib.sha1(str(a.dtype).encode() + str(a.shape).encode() + a.tobytes()).hexdigest()[:12]
    return hashlib.sha1(repr(t).encode()).hexdigest()[:12]


# --------------------------------------------------------------------------- worker side
def _jsonable(out: dict) -> dict:
    o = dict(out)
    o["counters"] = dict(out["counters"])
    o["keys"] = sorted(out["keys"])
    return o


def run_one(engine_name: str, plan: dict) -> dict:
    """Execute one plan in this process; classify harness errors."""
    eng = importlib.import_module(engine_name)
    faulthandler.dump_traceback_later(RUN_TIMEOUT_S, exit=True)
    try:
        out = eng.run_plan(plan)
        out = _jsonable(out)
    except BaseException as e:  # harness error (engine bug or unclassified exception)
        out = _jsonable(new_outcome(plan))
        out["harness_error"] = f"{type(e).__name__}: {e}\n{traceback.format_exc()[-3000:]}"
    finally:
        faulthandler.cancel_dump_traceback_later()
    return out


def _worker_chunk(args):
    engine_name, tier, seeds, want_plans = args
    eng = importlib.import_module(engine_name)
    res = []
    for s in seeds:
        plan = eng.make_plan(s, tier)
        out = run_one(engine_name, plan)
        if out["violations"] or out.get("harness_error") or want_plans:
            out["plan"] = plan
        res.append(out)
    return res


def _init_worker():
    try:
        import torch

        torch.set_num_threads(1)
    except Exception:
        pass


# --------------------------------------------------------------------------- known findings
def load_known() -> dict:
    if KNOWN_FINDINGS.exists():
        return json.loads(KNOWN_FINDINGS.read_text())
    return {"findings": [], "fixed": []}


def match_known(prop: str, v: dict, known: dict):
    for f in known.get("findings", []):
        if f.get("property") != prop:
            continue
        if f.get("oracle") and f["oracle"] != v["oracle"]:
            continue
        if re.fullmatch(f.get("sig_regex", ".*"), v["sig"]):
            return f
    return None


# --------------------------------------------------------------------------- minimisation
def _violates(engine_name: str, plan: dict, oracle: str, known: dict, prop: str):
    out = run_one(engine_name, plan)
    if out.get("harness_error"):
        return None
    for v in out["violations"]:
        if v["oracle"] == oracle and match_known(prop, v, known) is None:
            return (out, v)
    return None


def minimise(engine_name: str, plan: dict, oracle: str, known: dict, prop: str, budget_s: float = 120.0):
    """Greedy minimisation: accept any candidate from engine.shrink that keeps (property, oracle)."""
    eng = importlib.import_module(engine_name)
    shrink = getattr(eng, "shrink", None)
    best = plan
    t0 = time.time()
    tried = 0
    if shrink is None:
        return best, tried
    improved = True
    while improved and time.time() - t0 < budget_s:
        improved = False
        for cand in shrink(best):
            if time.time() - t0 > budget_s:
                break
            tried += 1
            r = _violates(engine_name, cand, oracle, known, prop)
            if r is not None:
                best = cand
                improved = True
                break
    return best, tried


def ddmin_list(items: list):
    """Candidate sub-lists for a delta-debugging pass (halves, then single removals)."""
    n = len(items)
    if n == 0:
        return
    k = 2
    while k <= n:
        size = max(1, n // k)
        for start in range(0, n, size):
            cand = items[:start] + items[start + size:]
            if len(cand) < n:
                yield cand
        if size == 1:
            break
        k *= 2


# --------------------------------------------------------------------------- main entry
def write_replay(prop: str, plan: dict, v: dict, out: dict, tag: str = "") -> Path:
    REPLAY_DIR.mkdir(exist_ok=True)
    name = f"{prop}-{plan.get('seed')}-{re.sub(r'[^A-Za-z0-9_.-]+', '_', v['oracle'])[:40]}{tag}.json"
    p = REPLAY_DIR / name
    p.write_text(json.dumps({"property": prop, "violation": v, "digest": out.get("digest"), "plan": plan}, indent=1, sort_keys=True, default=str))
    return p


def replay(prop: str, path: str) -> int:
    engine_name = ENGINES[prop]
    rec = json.loads(Path(path).read_text())
    out = run_one(engine_name, rec["plan"])
    if out.get("harness_error"):
        print("HARNESS-ERROR during replay:\n" + out["harness_error"])
        return 2
    known = load_known()
    rc = 0
    for v in out["violations"]:
        k = match_known(prop, v, known)
        if k is None:
            print(f"VIOLATION property={prop} replay={path}")
            print(f"  oracle={v['oracle']} sig={v['sig']}\n  {v['detail']}")
            rc = 1
        else:
            print(f"KNOWN-FINDING: property={prop} {k['what']} [oracle={v['oracle']} sig={v['sig']}]")
    same = out.get("digest") == rec.get("digest")
    print(f"replay digest {'matches' if same else 'DIFFERS from'} recorded digest ({out.get('digest')} vs {rec.get('digest')})")
    if not out["violations"]:
        print("replay: no violation reproduced")
    return rc


def main(argv=None) -> int:
    import argparse

    ap = argparse.ArgumentParser(prog="check")
    ap.add_argument("property")
    ap.add_argument("--tier", default=os.environ.get("VERIF_TIER", "quick"), choices=["quick", "thorough"])
    ap.add_argument("--replay", default=None)
    ap.add_argument("--runs", type=int, default=None)
    ap.add_argument("--budget", type=float, default=None)
    ap.add_argument("--jobs", type=int, default=None)
    ap.add_argument("--no-evidence", action="store_true")
    ap.add_argument("--digests", default=None, help="write seed->digest json to this path (determinism self-test)")
    ap.add_argument("--chunk", type=int, default=None)
    ap.add_argument("--reverse", action="store_true", help="run seeds in reverse order (determinism self-test)")
    args = ap.parse_args(argv)

    prop = args.property
    if prop not in ENGINES:
        print(f"unknown property {prop}")
        return 2
    if args.replay:
        return replay(prop, args.replay)

    engine_name = ENGINES[prop]
    eng = importlib.import_module(engine_name)
    tier = args.tier
    tcfg = eng.TIERS[tier]
    base_seed = int(os.environ.get("VERIF_SEED", "0"))
    n_runs = args.runs or int(os.environ.get("VERIF_RUNS", tcfg["runs"]))
    budget = args.budget or float(os.environ.get("VERIF_BUDGET_S", tcfg["budget_s"]))
    jobs = args.jobs or int(os.environ.get("VERIF_JOBS", min(16, os.cpu_count() or 1)))
    seeds = [mix(base_seed, prop, i) & ((1 << 48) - 1) for i in range(n_runs)]
    if args.reverse:
        seeds = seeds[::-1]
    chunk = args.chunk or max(1, min(int(tcfg.get("chunk", 8)), max(1, n_runs // (jobs * 4))))
    chunks = [seeds[i:i + chunk] for i in range(0, len(seeds), chunk)]

    t0 = time.time()
    print(f"[leasim] property={prop} tier={tier} VERIF_SEED={base_seed} runs<={n_runs} budget={budget:.0f}s jobs={jobs} "
          f"first_seed={seeds[0]} last_seed={seeds[-1]}", flush=True)

    counters = Counter()
    keys = set()
    nontrivial_keys = set()
    digests = {}
    samples = []
    viols = []          # (v, plan, out)
    harness_errors = []
    discards = Counter()
    evaluations = 0
    virtual_s = 0.0
    seeds_done = []

    ctx = mp.get_context("fork")
    stopped_early = False
    known_early = load_known()
    n_unlisted_seen = 0
    with cf.ProcessPoolExecutor(max_workers=jobs, mp_context=ctx, initializer=_init_worker) as ex:
        pending = set()
        it = iter(enumerate(chunks))
        exhausted = False
        budget_truncated = False

        def submit_more():
            nonlocal exhausted, budget_truncated
            while not exhausted and len(pending) < jobs * 2:
                if time.time() - t0 > budget:
                    exhausted = True
                    budget_truncated = True
                    break
                try:
                    ci, ch = next(it)
                except StopIteration:
                    exhausted = True
                    break
                want = ci < 3
                pending.add(ex.submit(_worker_chunk, (engine_name, tier, ch, want)))

        submit_more()
        try:
            while pending:
                done, _ = cf.wait(pending, timeout=RUN_TIMEOUT_S * 2 + 60, return_when=cf.FIRST_COMPLETED)
                if not done:
                    harness_errors.append("driver: no chunk completed within the watchdog period")
                    break
                for fut in done:
                    pending.discard(fut)
                    try:
                        res = fut.result()
                    except Exception as e:  # BrokenProcessPool after a faulthandler exit etc.
                        harness_errors.append(f"worker died: {type(e).__name__}: {e}")
                        continue
                    for out in res:
                        evaluations += 1
                        seeds_done.append(out["seed"])
                        digests[str(out["seed"])] = out["digest"]
                        virtual_s += out.get("virtual_s", 0.0) or 0.0
                        if out.get("harness_error"):
                            harness_errors.append(f"seed={out['seed']}: {out['harness_error']}")
                            continue
                        if out.get("discarded"):
                            discards[out["discarded"]] += 1
                            continue
                        counters.update(out["counters"])
                        ks = set(out["keys"])
                        keys |= ks
                        if out["nontrivial"]:
                            nontrivial_keys |= {k for k in ks if k.startswith("run:")}
                        if out.get("sample") is not None and len(samples) < 4:
                            samples.append({"seed": out["seed"], "case": out["sample"]})
                        for v in out["violations"]:
                            viols.append((v, out.get("plan"), out))
                            if match_known(prop, v, known_early) is None:
                                n_unlisted_seen += 1
                if harness_errors and any("worker died" in h for h in harness_errors):
                    break
                if n_unlisted_seen > 200:
                    stopped_early = True
                    exhausted = True
                submit_more()
        finally:
            for f in pending:
                f.cancel()

    wall = time.time() - t0
    known = load_known()
    rc = 0
    # ---- triage violations
    by_class = {}
    for v, plan, out in viols:
        by_class.setdefault((v["oracle"], v["sig"]), []).append((v, plan, out))
    known_hits = Counter()
    unlisted = []
    for (oracle, sig), lst in sorted(by_class.items()):
        k = match_known(prop, lst[0][0], known)
        if k is not None:
            known_hits[(k["what"], oracle)] += len(lst)
        else:
            unlisted.append((oracle, sig, lst))
    for (what, oracle), n in sorted(known_hits.items()):
        print(f"KNOWN-FINDING: property={prop} {what} [oracle={oracle}; seen {n}x in this run]")
    if unlisted:
        print("violation classes found (oracle | signature | runs):")
        for oracle, sig, lst in unlisted:
            print(f"  {oracle} | {sig} | {len(lst)}")
    reported = set()
    t_shrink0 = time.time()
    max_report = int(os.environ.get("VERIF_MAX_REPORT", "6"))
    for oracle, sig, lst in unlisted[:max_report]:
        v, plan, out = min(lst, key=lambda x: len(json.dumps(x[1], default=str)) if x[1] else 10**9)
        if plan is None:
            harness_errors.append("violation without plan")
            continue
        # minimisation budget: per class and overall (slow engines must not turn a red check into a stalled one)
        spent = time.time() - t_shrink0
        per_class = float(os.environ.get("VERIF_SHRINK_S", "60"))
        total = float(os.environ.get("VERIF_SHRINK_TOTAL_S", "180"))
        mplan, tried = minimise(engine_name, plan, oracle, known, prop, budget_s=max(0.0, min(per_class, total - spent)))
        r = _violates(engine_name, mplan, oracle, known, prop)
        if r is None:  # should not happen (minimise only accepts violating plans) -> keep original
            mplan = plan
            r = _violates(engine_name, mplan, oracle, known, prop)
        if r is None:
            harness_errors.append(f"violation oracle={oracle} sig={sig} seed={plan.get('seed')} did not replay: nondeterminism in harness")
            continue
        mout, mv = r
        if (mv["oracle"], mv["sig"]) in reported:
            rc = 1
            continue
        reported.add((mv["oracle"], mv["sig"]))
        path = write_replay(prop, mplan, mv, mout)
        print(f"VIOLATION property={prop} replay={path}")
        print(f"  oracle={mv['oracle']} sig={mv['sig']} seed={plan.get('seed')} (seen {len(lst)}x; {tried} shrink candidates tried)\n  {mv['detail']}")
        rc = 1
    if len(unlisted) > max_report:
        print(f"  ... {len(unlisted) - max_report} more violation classes not minimised (VERIF_MAX_REPORT)")

    # ---- harness health
    n_disc = sum(discards.values())
    degraded = []
    if harness_errors:
        degraded.append(f"{len(harness_errors)} harness error(s); first: {harness_errors[0][:1500]}")
    if evaluations and n_disc / max(1, evaluations) > 0.2:
        degraded.append(f"discard rate {n_disc}/{evaluations} > 20%: {dict(discards)}")
    if evaluations == 0:
        degraded.append("no run completed")
    req = getattr(eng, "REQUIRED_PROBES", {}).get(tier, []) if isinstance(getattr(eng, "REQUIRED_PROBES", None), dict) else []
    starving = [p for p in req if counters.get(p, 0) == 0]
    if starving and not stopped_early:
        if budget_truncated and evaluations > 0:
            # a slow or loaded machine reached the wall-clock budget before the planned runs were done: what was explored held;
            # the shortfall is reported (and recorded in the evidence), it is not a failure of the tree
            print(f"NOTE: wall-clock budget reached after {evaluations} of {n_runs} planned runs; probes not reached in this shortened batch: {starving}")
        else:
            degraded.append(f"probes never hit: {starving}")

    # ---- evidence
    desc = getattr(eng, "DESCRIBE", {})
    distinct_nontrivial = len(nontrivial_keys)
    if not args.no_evidence:
        EVIDENCE_DIR.mkdir(exist_ok=True)
        grouped = {}
        for k, n in sorted(counters.items()):
            g, _, name = k.partition(".")
            grouped.setdefault(g, {})[name] = n
        ev = {
            "property_id": prop,
            "tier": tier,
            "seed": base_seed,
            "level": "exploration",
            "coverage": {
                "evaluations": evaluations,
                "distinct_nontrivial": distinct_nontrivial,
                "distinct_keys_by_prefix": dict(Counter(k.split(":", 1)[0] for k in keys)),
                "rule": desc.get("rule", ""),
                "distinct_measure": desc.get("distinct_measure", ""),
                "samples": samples or [{"note": "no sample recorded"}],
                "runs_per_hour": round(evaluations / max(wall, 1e-9) * 3600),
                "simulated_time_s": round(virtual_s, 3),
                "first_seed": seeds[0],
                "last_seed_completed": seeds_done[-1] if seeds_done else None,
                "counters": grouped,
                "faults_fired": grouped.get("fault", {}),
                "probes_hit": grouped.get("probe", {}),
                "discarded_runs": dict(discards),
                "known_findings_seen": {f"{w} [{o}]": n for (w, o), n in known_hits.items()},
                "real_components": desc.get("real", []),
                "stubbed_components": desc.get("stub", []),
                "stopped_early": stopped_early,
                "planned_runs": n_runs,
                "stopped_by_budget": bool(budget_truncated),
                "required_probes_not_reached": starving,
                "exhaustive": False,
            },
            "assumptions": desc.get("assumptions", []),
            "wall_s": round(wall, 2),
            "violations": len(unlisted),
        }
        (EVIDENCE_DIR / f"{prop}.json").write_text(json.dumps(ev, indent=1, default=str))
    if args.digests:
        Path(args.digests).write_text(json.dumps(digests, sort_keys=True))

    print(f"[leasim] {prop} {tier}: {evaluations} runs in {wall:.1f}s ({evaluations / max(wall, 1e-9) * 3600:.0f}/h), "
          f"distinct_nontrivial={distinct_nontrivial}, discarded={n_disc}, violation_classes={len(unlisted)}, known={sum(known_hits.values())}")
    if rc == 1:
        return 1
    if degraded:
        for d in degraded:
            print("HARNESS-DEGRADED: " + d)
        return 2
    return 0


