"""Shared workload generator: tiny cohorts and models of every shipped kind.

Everything is a pure function of the `Stream` handed in.
"""
from __future__ import annotations

import math
from typing import Optional

import numpy as np
import pandas as pd

PRIMES = (3, 5, 7)

# model kinds -> spec used by `make_model`
MODEL_KINDS = (
    "logistic_scalar",      # logistic, scalar gaussian noise, sources
    "logistic_diag",        # logistic, diagonal noise, sources
    "logistic_diag_nosrc",  # logistic, diagonal noise, no source
    "logistic_uni",         # univariate logistic
    "logistic_binary",      # bernoulli obs model
    "linear_diag",
    "linear_scalar",
    "linear_uni",
    "shared_speed",
    "shared_speed_nosrc",
    "joint_uni",
    "joint_multi",          # joint, with sources, diagonal? (scalar by default)
    "joint_nosrc",
    "joint_ev2",            # joint, with sources, two competing events (EVENT_BOOL in {0, 1, 2})
    "joint_ev2_nosrc",
    "mixture",
)


def sigmoid(x):
    return 1.0 / (1.0 + math.exp(-x))


def kind_info(kind: str) -> dict:
    """Static description of a model kind."""
    d = dict(kind=kind, family=None, obs=None, sources=True, uni=False, event=False, binary=False, nb_events=0)
    if kind.startswith("logistic"):
        d["family"] = "logistic"
    elif kind.startswith("linear"):
        d["family"] = "linear"
    elif kind.startswith("shared_speed"):
        d["family"] = "shared_speed_logistic"
    elif kind.startswith("joint"):
        d["family"] = "joint"
        d["event"] = True
        d["nb_events"] = 2 if "_ev2" in kind else 1
    elif kind == "mixture":
        d["family"] = "mixture_logistic"
    if kind.endswith("_uni"):
        d["uni"] = True
        d["sources"] = False
    if kind.endswith("nosrc"):
        d["sources"] = False
    if "scalar" in kind:
        d["obs"] = "gaussian-scalar"
    elif "diag" in kind:
        d["obs"] = "gaussian-diagonal"
    elif "binary" in kind:
        d["obs"] = "bernoulli"
        d["binary"] = True
    return d


def make_cohort(
    st,
    *,
    kind: str = "logistic_diag",
    n: int = 5,
    n_features: int = 3,
    max_visits: int = 4,
    min_visits: int = 1,
    missing_rate: float = 0.15,
    whole_feature_missing: bool = False,
    id_prefix: str = "S",
    ensure_two_visits: int = 2,
    baseline_axis: bool = False,
) -> pd.DataFrame:
    """Return a long dataframe with columns ID, TIME, features... (+ EVENT_TIME, EVENT_BOOL).

    Data come from a ground-truth trajectory of the model family plus noise, so fits
    behave (no collapse) on these tiny cohorts.
    """
    info = kind_info(kind)
    if info["uni"]:
        n_features = 1
    if info["nb_events"] > 1:
        n = max(n, 4)   # the reader derives the number of events from the data: each type and a censored individual must be present
    feats = [f"Y{j}" for j in range(n_features)]
    rows = []
    # population ground truth
    tau_mean = st.uniform(65, 75)
    g = [st.uniform(0.5, 3.0) for _ in range(n_features)]
    v0 = [math.exp(st.uniform(-3.2, -2.2)) for _ in range(n_features)]
    lin_pos = [st.uniform(0.2, 0.6) for _ in range(n_features)]
    n_vis = []
    for i in range(n):
        nv = st.randint(min_visits, max_visits)
        n_vis.append(nv)
    # guarantee some individuals with >= 2 visits (needed by initialisation regressions)
    idx2 = st.shuffle(range(n))[: min(n, max(ensure_two_visits, 0))]
    for i in idx2:
        n_vis[i] = max(n_vis[i], 2 if max_visits >= 2 else 1)
    for i in range(n):
        pid = f"{id_prefix}{i}"
        tau = tau_mean + 4.0 * st.normal()
        xi = 0.4 * st.normal()
        w = [0.3 * st.normal() for _ in range(n_features)]
        t = tau + st.uniform(-8, 4)
        times = []
        for _ in range(n_vis[i]):
            times.append(round(t, 3))
            t += st.uniform(0.4, 2.5)
        ev_t = None
        ev_b = None
        if info["event"]:
            # weibull-ish event after first visit
            ev_t = round(max(times) + st.uniform(0.0, 6.0), 3)
            ev_b = 1 if st.bernoulli(0.55) else 0
            if ev_b and info["nb_events"] > 1 and st.bernoulli(0.45):
                ev_b = 2
        for tt in times:
            row = {"ID": pid, "TIME": tt}
            if info["event"]:
                row["EVENT_TIME"] = ev_t
                row["EVENT_BOOL"] = ev_b
            for j, f in enumerate(feats):
                rt = math.exp(xi) * (tt - tau)
                if info["family"] == "linear":
                    val = lin_pos[j] + v0[j] * rt + w[j] * 0.1 + 0.03 * st.normal()
                else:
                    metric = (g[j] + 1) ** 2 / g[j]
                    p = sigmoid(metric * (v0[j] * rt + w[j] * 0.2) - math.log(g[j]))
                    if info["binary"]:
                        val = 1.0 if st.bernoulli(p) else 0.0
                    else:
                        val = min(max(p + 0.04 * st.normal(), 0.01), 0.99)
                row[f] = round(val, 5)
            rows.append(row)
    df = pd.DataFrame(rows)
    if baseline_axis:
        # time axis "years since baseline": the whole cohort is shifted so that its earliest visit is at exactly 0.0
        # (0 is also what pads the ages of individuals with fewer visits: a real visit at 0 must still count)
        t0 = float(df["TIME"].min())
        df["TIME"] = (df["TIME"] - t0).round(3)
        if info["event"]:
            df["EVENT_TIME"] = (df["EVENT_TIME"] - t0).round(3)
    if info["event"]:
        # at least one censored and one observed event
        ids = list(dict.fromkeys(df["ID"]))
        df.loc[df["ID"] == ids[0], "EVENT_BOOL"] = 1
        df.loc[df["ID"] == ids[-1], "EVENT_BOOL"] = 0
        if info["nb_events"] > 1:
            df.loc[df["ID"] == ids[1], "EVENT_BOOL"] = 2
            df.loc[df["ID"] == ids[2], "EVENT_BOOL"] = 1   # (two observed events of the first type: the Weibull initialisation needs them)
    # missing entries (never a whole row of NaN unless n_features == 1 and we skip)
    if missing_rate > 0 and n_features >= 2:
        for r in range(len(df)):
            present = list(feats)
            for f in feats:
                if len(present) > 1 and st.bernoulli(missing_rate):
                    df.loc[df.index[r], f] = np.nan
                    present.remove(f)
    if whole_feature_missing and n_features >= 2 and n >= 2:
        ids = list(dict.fromkeys(df["ID"]))
        pid = ids[st.randint(0, len(ids) - 1)]
        f = feats[st.randint(0, n_features - 1)]
        df.loc[df["ID"] == pid, f] = np.nan
        # keep at least one observed value in each row of that individual
        sub = df[df["ID"] == pid]
        other = [x for x in feats if x != f]
        for r in sub.index:
            if sub.loc[r, other].isna().all():
                df.loc[r, other[0]] = 0.5 if not info["binary"] else 1.0
    # make sure every feature has at least 2 individuals with >=2 observed visits (init regressions)
    for f in feats:
        cnt = df.dropna(subset=[f]).groupby("ID").size()
        if (cnt >= 2).sum() < 2:
            # fill feature everywhere for individuals with >= 2 visits
            for pid, nvv in df.groupby("ID").size().items():
                if nvv >= 2:
                    sel = (df["ID"] == pid) & df[f].isna()
                    df.loc[sel, f] = 0.5 if not info["binary"] else 1.0
    return df


def to_data(df: pd.DataFrame, kind: str):
    from leaspy.io.data import Data

    info = kind_info(kind)
    if info["event"]:
        return Data.from_dataframe(df, data_type="joint")
    return Data.from_dataframe(df)


def make_model(kind: str, n_features: int, *, source_dimension: Optional[int] = None, name: Optional[str] = None, **extra):
    """Instantiate (not initialise) a model of the given kind."""
    from leaspy.models import model_factory
    from leaspy.models.obs_models import observation_model_factory

    info = kind_info(kind)
    kw = {}
    if info["uni"]:
        n_features = 1
    if info["sources"]:
        sd = source_dimension if source_dimension is not None else max(1, min(2, n_features - 1))
        sd = max(1, min(sd, n_features - 1))
    else:
        sd = 0
    fam = info["family"]
    if fam in ("logistic", "linear", "shared_speed_logistic"):
        if info["uni"]:
            kw.update(dimension=1)
        else:
            kw.update(source_dimension=sd)
            if info["obs"] == "gaussian-diagonal" or fam == "shared_speed_logistic" and info["obs"] is None:
                kw.update(obs_models=observation_model_factory("gaussian-diagonal", dimension=n_features), dimension=n_features)
            elif info["obs"] == "gaussian-scalar":
                kw.update(obs_models="gaussian-scalar", dimension=n_features)
            elif info["obs"] == "bernoulli":
                kw.update(obs_models="bernoulli", dimension=n_features)
    elif fam == "joint":
        if info["uni"]:
            kw.update(dimension=1)
        elif sd == 0:
            # NB: passing `dimension` too would configure two 'y' observation models
            kw.update(source_dimension=0)
        else:
            kw.update(source_dimension=sd, dimension=n_features)
        if info["nb_events"] > 1:
            kw.update(nb_events=info["nb_events"])
    elif fam == "mixture_logistic":
        kw.update(obs_models="gaussian-diagonal", dimension=n_features, source_dimension=sd, n_clusters=2)
    kw.update(extra)   # e.g. initialization_method="random"
    if name:
        return model_factory(fam, name, **kw)
    return model_factory(fam, **kw)


def valid_for_kind(kind: str, n_features: int) -> bool:
    info = kind_info(kind)
    if info["uni"]:
        return True
    if info["sources"] and n_features < 2:
        return False
    if info["family"] == "shared_speed_logistic" and n_features < 2:
        return False
    if info["family"] == "mixture_logistic" and n_features < 2:
        return False
    if not info["uni"] and n_features < 2 and info["family"] != "joint":
        return False
    return True
