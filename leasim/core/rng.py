"""Counter-based, addressed pseudo-random streams (splitmix64).

A value is a pure function of (seed, label, index): removing an operation, an
individual or an iteration while minimising does not shift the other draws.
No Python ``hash`` is used anywhere (PYTHONHASHSEED independent).
"""
from __future__ import annotations

import hashlib
import math
import struct

MASK = (1 << 64) - 1


def _splitmix(x: int) -> int:
    x = (x + 0x9E3779B97F4A7C15) & MASK
    z = x
    z = ((z ^ (z >> 30)) * 0xBF58476D1CE4E5B9) & MASK
    z = ((z ^ (z >> 27)) * 0x94D049BB133111EB) & MASK
    return z ^ (z >> 31)


def _label_key(label) -> int:
    if isinstance(label, int):
        return label & MASK
    h = hashlib.blake2b(repr(label).encode(), digest_size=8).digest()
    return struct.unpack("<Q", h)[0]


def mix(*parts) -> int:
    """Mix integers / labels into one 64-bit integer."""
    acc = 0x243F6A8885A308D3
    for p in parts:
        acc = _splitmix(acc ^ _label_key(p))
    return acc


class Stream:
    """A sequential stream derived from (seed, label)."""

    def __init__(self, seed: int, *label):
        self.key = mix(seed, *label)
        self.i = 0

    def u64(self) -> int:
        self.i += 1
        return _splitmix(self.key ^ _splitmix(self.i))

    def random(self) -> float:
        """uniform in [0, 1) with 53 bits."""
        return (self.u64() >> 11) * (1.0 / (1 << 53))

    def randint(self, lo: int, hi: int) -> int:
        """inclusive bounds."""
        if hi < lo:
            raise ValueError((lo, hi))
        return lo + self.u64() % (hi - lo + 1)

    def choice(self, seq):
        seq = list(seq)
        return seq[self.u64() % len(seq)]

    def weighted(self, pairs):
        """pairs = [(item, weight), ...]"""
        tot = sum(w for _, w in pairs)
        x = self.random() * tot
        for it, w in pairs:
            x -= w
            if x < 0:
                return it
        return pairs[-1][0]

    def bernoulli(self, p: float) -> bool:
        return self.random() < p

    def uniform(self, a: float, b: float) -> float:
        return a + (b - a) * self.random()

    def normal(self) -> float:
        u1 = max(self.random(), 1e-300)
        u2 = self.random()
        return math.sqrt(-2.0 * math.log(u1)) * math.cos(2 * math.pi * u2)

    def shuffle(self, seq) -> list:
        seq = list(seq)
        for i in range(len(seq) - 1, 0, -1):
            j = self.u64() % (i + 1)
            seq[i], seq[j] = seq[j], seq[i]
        return seq

    def sample(self, seq, k: int) -> list:
        return self.shuffle(seq)[:k]

    def normals(self, n: int) -> list:
        return [self.normal() for _ in range(n)]


class SimRng:
    """Factory of addressed streams for one run."""

    def __init__(self, seed: int):
        self.seed = seed & MASK

    def stream(self, *label) -> Stream:
        return Stream(self.seed, *label)

    def at(self, *address) -> Stream:
        """Fresh stream for an address (same address -> same values)."""
        return Stream(self.seed, "at", *address)
