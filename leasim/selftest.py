"""Self-tests of the machinery: environment, determinism, sensitivity."""
from __future__ import annotations

import json
import os
import subprocess
import sys
import tempfile
import time
from pathlib import Path

VERIF = Path(__file__).resolve().parents[1]


def setup() -> int:
    import leaspy.models  # noqa: F401
    import numpy
    import pandas
    import scipy
    import torch

    import leaspy

    print(f"leaspy {leaspy.__version__} from {Path(leaspy.__file__).parent}; torch {torch.__version__}; numpy {numpy.__version__}; "
          f"pandas {pandas.__version__}; scipy {scipy.__version__}; python {sys.version.split()[0]}")
    for f in ("MANIFEST.json", "known_findings.json", "properties.jsonl"):
        assert (VERIF / f).exists(), f
    json.loads((VERIF / "MANIFEST.json").read_text())
    json.loads((VERIF / "known_findings.json").read_text())
    print("setup ok")
    return 0


def _digests(prop, runs, jobs, chunk, hashseed, reverse=False, tier="quick"):
    with tempfile.NamedTemporaryFile(suffix=".json", delete=False) as f:
        path = f.name
    env = dict(os.environ)
    env["LEASIM_HASHSEED"] = str(hashseed)
    cmd = [str(VERIF / "check"), prop, "--tier", tier, "--runs", str(runs), "--jobs", str(jobs), "--chunk", str(chunk),
           "--no-evidence", "--digests", path, "--budget", "36000"]   # (every seed must complete in every configuration)
    if reverse:
        cmd.append("--reverse")
    p = subprocess.run(cmd, env=env, capture_output=True, text=True)
    try:
        d = json.loads(Path(path).read_text())
    finally:
        os.unlink(path)
    return d, p.returncode, p.stdout[-2000:]


def determinism(props, runs) -> int:
    """Each seed is run 4 times: 2 worker counts x 2 hash seeds, different chunking and order; digests must agree."""
    from leasim.core.driver import ENGINES

    bad = 0
    for prop in props or sorted(ENGINES):
        try:
            __import__(ENGINES[prop])
        except ImportError:
            continue
        t0 = time.time()
        configs = [(16, 7, 0, False), (5, 3, 0, True), (16, 11, 12345, False), (3, 2, 777, True)]
        results = []
        n_runs = min(runs, 64) if prop == "C11" else runs     # (two fresh interpreters per run: ~1.5 s each)
        for jobs, chunk, hs, rev in configs:
            d, rc, tail = _digests(prop, n_runs, jobs, chunk, hs, rev)
            if rc not in (0, 1):
                print(f"{prop}: run (jobs={jobs}, chunk={chunk}, hashseed={hs}) exited {rc}:\n{tail}")
                bad += 1
            results.append(d)
        ref = results[0]
        diff = [s for s in ref if any(r.get(s) != ref[s] for r in results[1:])]
        missing = [s for r in results[1:] for s in ref if s not in r]
        print(f"{prop}: {len(ref)} seeds x {len(configs)} configurations, {len(diff)} digest mismatches, {len(missing)} missing, {time.time() - t0:.0f}s")
        if diff or missing:
            bad += 1
            print("  first mismatching seeds:", diff[:5])
    return 1 if bad else 0


def main(argv=None) -> int:
    argv = argv if argv is not None else sys.argv[1:]
    if not argv or argv[0] == "setup":
        return setup()
    if argv[0] == "determinism":
        runs = int(os.environ.get("VERIF_RUNS", "200"))
        return determinism(argv[1:], runs)
    if argv[0] == "sensitivity":
        from leasim import mutants

        return mutants.main(argv[1:])
    print("usage: check selftest setup|determinism [Cxx...]|sensitivity [name...]")
    return 2


if __name__ == "__main__":
    import leaspy.models  # noqa: F401

    sys.exit(main())
