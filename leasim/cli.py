"""Entry point (kept separate from the driver module so that the driver is imported exactly once)."""
import sys

import leaspy.models  # noqa: F401  (import order matters: leaspy.variables alone hits a circular import)

from leasim.core.driver import main

if __name__ == "__main__":
    sys.exit(main())
