"""Cache-free reference evaluator over *direct* dependencies.

Deliberately uses neither `State` nor the closure tables of `VariablesDAG`
(sorted_children / sorted_ancestors / path matrix): only
`dag.variables[name]` and `var.get_ancestors_names()`.
"""
from __future__ import annotations

import torch

import leaspy.models  # noqa: F401  (import order matters: leaspy.variables alone hits a circular import)
from leaspy.utils.weighted_tensor import WeightedTensor
from leaspy.variables.specs import Hyperparameter, IndepVariable, LinkedVariable


class Unset(Exception):
    """An independent value needed by the evaluation is None."""

    def __init__(self, name):
        super().__init__(name)
        self.name = name


class RefEval:
    """Evaluate nodes from scratch given the independent values.

    `indep` maps every non-hyperparameter independent variable to a value or None.
    """

    def __init__(self, variables, indep: dict):
        self.variables = variables  # mapping name -> VariableInterface (dag.variables)
        self.indep = indep
        self.memo = {}

    def value(self, name):
        if name in self.memo:
            return self.memo[name]
        var = self.variables[name]
        if isinstance(var, Hyperparameter):
            v = var.value
        elif isinstance(var, IndepVariable):
            v = self.indep.get(name)
            if v is None:
                raise Unset(name)
        elif isinstance(var, LinkedVariable):
            # evaluate direct dependencies in sorted order (deterministic error reporting)
            kws = {}
            for p in sorted(var.get_ancestors_names()):
                kws[p] = self.value(p)
            v = var.f(**kws)
        else:  # pragma: no cover
            raise TypeError(type(var))
        self.memo[name] = v
        return v

    def try_value(self, name):
        try:
            return ("ok", self.value(name))
        except Unset as e:
            return ("unset", e.name)


def direct_parents(variables) -> dict:
    return {n: frozenset(v.get_ancestors_names()) for n, v in variables.items()}


def descendants(variables, roots) -> set:
    """Transitive dependents of `roots`, computed from direct dependencies only."""
    par = direct_parents(variables)
    out = set()
    changed = True
    while changed:
        changed = False
        for n, ps in par.items():
            if n in out:
                continue
            if any((p in roots) or (p in out) for p in ps):
                out.add(n)
                changed = True
    return out


def ancestors_of(variables, name) -> set:
    par = direct_parents(variables)
    out = set()
    stack = list(par[name])
    while stack:
        p = stack.pop()
        if p not in out:
            out.add(p)
            stack.extend(par[p])
    return out


# --------------------------------------------------------------------------- comparisons
def _teq(a: torch.Tensor, b: torch.Tensor) -> bool:
    if a.shape != b.shape or a.dtype != b.dtype:
        return False
    if a.is_floating_point():
        na, nb = torch.isnan(a), torch.isnan(b)
        if not torch.equal(na, nb):
            return False
        return bool(torch.equal(a.masked_fill(na, 0), b.masked_fill(nb, 0)))
    return bool(torch.equal(a, b))


def same(a, b) -> bool:
    """Exact equality (NaN positions equal; -0.0 == 0.0) of tensors / weighted tensors / None."""
    if a is None or b is None:
        return a is None and b is None
    aw, bw = isinstance(a, WeightedTensor), isinstance(b, WeightedTensor)
    if aw != bw:
        return False
    if aw:
        if (a.weight is None) != (b.weight is None):
            return False
        if a.weight is not None and not _teq(a.weight, b.weight):
            return False
        return _teq(a.value, b.value)
    if not isinstance(a, torch.Tensor) or not isinstance(b, torch.Tensor):
        return a == b
    return _teq(a, b)


def close(a, b, rtol=1e-5, atol=1e-7) -> bool:
    if a is None or b is None:
        return a is None and b is None
    if isinstance(a, WeightedTensor):
        a = a.weighted_value
    if isinstance(b, WeightedTensor):
        b = b.weighted_value
    a = torch.as_tensor(a).double()
    b = torch.as_tensor(b).double()
    if a.shape != b.shape:
        return False
    return bool(torch.allclose(a, b, rtol=rtol, atol=atol, equal_nan=True))


def describe_diff(a, b) -> str:
    def d(x):
        if x is None:
            return "None"
        if isinstance(x, WeightedTensor):
            return f"W(value={x.value.flatten()[:6].tolist()}, weight={None if x.weight is None else x.weight.flatten()[:6].tolist()}, shape={tuple(x.shape)})"
        if isinstance(x, torch.Tensor):
            return f"T({x.flatten()[:6].tolist()}, shape={tuple(x.shape)}, {x.dtype})"
        return repr(x)

    return f"got {d(a)} expected {d(b)}"


def shares_storage(a, b) -> bool:
    """True if two tensors / weighted tensors share memory."""
    def ts(x):
        if x is None:
            return []
        if isinstance(x, WeightedTensor):
            return [t for t in (x.value, x.weight) if t is not None]
        if isinstance(x, torch.Tensor):
            return [x]
        return []

    for x in ts(a):
        for y in ts(b):
            if x.numel() and y.numel() and x.untyped_storage().data_ptr() == y.untyped_storage().data_ptr():
                return True
    return False
