"""RefMath — float64 numpy transcription of the *documented* formulas (no leaspy import).

Used with explicit float32 tolerances, never for bit-exact claims.

Inputs are plain numpy arrays:
  t (n, v) ages, w_t (n, v) visit weights, y (n, v, f), w_y (n, v, f) observation mask,
  xi (n, 1), tau (n, 1), sources (n, s),
  population values: log_g / g, log_v0, betas, deltas, xi_mean, ..., parameters: *_mean, *_std, noise_std
"""
from __future__ import annotations

import math

import numpy as np

LOG_2PI_HALF = 0.5 * math.log(2 * math.pi)
INFINITY = float(10**307)


def f64(x):
    if x is None:
        return None
    if hasattr(x, "weight") and hasattr(x, "value"):
        return f64(x.value)
    if hasattr(x, "detach"):
        return x.detach().cpu().numpy().astype(np.float64)
    return np.asarray(x, dtype=np.float64)


def weights(x):
    """weight array of a WeightedTensor (ones if None)."""
    if hasattr(x, "weight") and x.weight is not None:
        return x.weight.detach().cpu().numpy().astype(np.float64)
    return np.ones_like(f64(x))


def sigmoid(x):
    out = np.empty_like(x, dtype=np.float64)
    pos = x >= 0
    out[pos] = 1.0 / (1.0 + np.exp(-x[pos]))
    e = np.exp(x[~pos])
    out[~pos] = e / (1.0 + e)
    return out


def householder_basis(dgamma_t0, g_metric):
    """Orthonormal basis of the hyperplane orthogonal (in metric G) to the velocity: columns 1.. of the Householder
    reflection sending G*v onto the first axis."""
    v = np.asarray(g_metric, dtype=np.float64) * np.asarray(dgamma_t0, dtype=np.float64)
    d = v.shape[0]
    e = np.zeros(d)
    e[0] = 1.0
    alpha = -np.sign(v[0]) * np.linalg.norm(v)
    u = v - alpha * e
    nu = np.linalg.norm(u)
    w = u / nu
    q = np.eye(d) - 2.0 * np.outer(w, w)
    return q[:, 1:]


def normal_nll(x, loc, scale):
    return 0.5 * ((x - loc) / scale) ** 2 + np.log(scale) + LOG_2PI_HALF


class RefModel:
    """Closed forms for one model family from independent values (dict name -> numpy float64)."""

    def __init__(self, family: str, has_sources: bool, obs: str, event: bool = False):
        self.family = family          # logistic | linear | shared_speed_logistic | joint
        self.has_sources = has_sources
        self.obs = obs                # gaussian-scalar | gaussian-diagonal | bernoulli
        self.event = event

    # ---------------------------------------------------------------- population geometry
    def geometry(self, v: dict) -> dict:
        fam = self.family
        out = {}
        if fam in ("logistic", "joint"):
            g = np.exp(v["log_g"])
            v0 = np.exp(v["log_v0"])
            metric = (g + 1.0) ** 2 / g
            out.update(g=g, v0=v0, metric=metric, direction=v0, g_metric=metric**2)
        elif fam == "linear":
            g = v["g"]
            v0 = np.exp(v["log_v0"])
            metric = np.ones_like(g)
            out.update(g=g, v0=v0, metric=metric, direction=v0, g_metric=metric**2)
        elif fam == "shared_speed_logistic":
            g = np.exp(v["log_g"])                     # shape (1,)
            dp = np.concatenate([[0.0], v["deltas"]])
            de = np.exp(-dp)
            gde = g * de
            metric = (gde + 1.0) ** 2 / gde
            denom = 1.0 + gde
            gamma_t0 = 1.0 / denom
            out.update(g=g, deltas_padded=dp, metric=metric, direction=de / denom**2,
                       g_metric=1.0 / (gamma_t0 * (1.0 - gamma_t0)) ** 2, log_g=v["log_g"])
        else:
            raise ValueError(fam)
        if self.has_sources:
            basis = householder_basis(out["direction"], out["g_metric"])
            out["orthonormal_basis"] = basis
            out["mixing_matrix"] = (basis @ v["betas"]).T       # (n_sources, dim)
        return out

    # ---------------------------------------------------------------- trajectories
    def trajectory(self, v: dict, t, xi, tau, sources=None, geo=None):
        """values at ages t (n, v) for individuals (xi, tau (n,1), sources (n,s)) -> (n, v, f)"""
        geo = geo or self.geometry(v)
        rt = np.exp(xi) * (t - tau)                              # (n, v)
        rt = rt[:, :, None]
        if self.has_sources and sources is not None:
            ss = sources @ geo["mixing_matrix"]                  # (n, f)
        else:
            ss = np.zeros((1, 1))
        ss = ss[:, None, :]
        fam = self.family
        if fam in ("logistic", "joint"):
            logit = geo["metric"][None, None, :] * (geo["v0"][None, None, :] * rt + ss) - np.log(geo["g"])[None, None, :]
            return sigmoid(logit)
        if fam == "linear":
            return geo["g"][None, None, :] + geo["v0"][None, None, :] * rt + ss
        if fam == "shared_speed_logistic":
            logit = geo["metric"][None, None, :] * ss + rt + geo["deltas_padded"][None, None, :] - geo["log_g"][None, None, :]
            return sigmoid(logit)
        raise ValueError(fam)

    # ---------------------------------------------------------------- likelihood terms
    def attach_y_ind(self, v: dict, y, w_y, model):
        """per-individual attachment of the visit outcomes, observed entries only -> (n,)"""
        if self.obs == "bernoulli":
            eps = float(np.finfo(np.float32).eps)
            p = np.clip(model, eps, 1 - eps)
            nll = -(y * np.log(p) + (1 - y) * np.log1p(-p))
        else:
            sd = v["noise_std"]
            sd = np.broadcast_to(sd, (model.shape[-1],)) if np.ndim(sd) and np.size(sd) > 1 else np.reshape(sd, (-1,))[0]
            nll = normal_nll(y, model, sd)
        nll = np.where(w_y > 0, nll, 0.0)
        return nll.sum(axis=(1, 2))

    def attach_y_ind_tol(self, y, w_y, model):
        """Forward bound on the float32 rounding error of the attachment (n,): the Bernoulli log-density is
        ill-conditioned where the curve saturates (d nll / dp = 1 / min(p, 1-p)); Gaussian terms are well conditioned."""
        if self.obs != "bernoulli":
            return np.zeros(model.shape[0])
        eps = float(np.finfo(np.float32).eps)
        p = np.clip(model, eps, 1 - eps)
        cond = 1.0 / np.minimum(p, 1 - p)
        return (8 * eps * np.where(w_y > 0, cond, 0.0)).sum(axis=(1, 2))

    def attach_event_ind(self, v: dict, event_time, event_bool, xi, tau, sources=None):
        """right-censored Weibull on exp(xi)(t_e - tau) -> (n,)"""
        nu = np.exp(-v["n_log_nu"])
        rho = np.exp(v["log_rho"])
        rep = event_time - tau                                   # (n, e)
        if self.has_sources and sources is not None and "zeta" in v:
            shifts = sources @ v["zeta"]                         # (n, e)
            nu_rep = nu * np.exp(-(xi + shifts / rho))
        else:
            nu_rep = np.exp(-xi) * nu
        log_surv = -((np.clip(rep, 0.0, None) / nu_rep) ** rho)
        with np.errstate(all="ignore"):
            hazard = np.where(rep > 0, rho / nu_rep * (rep / nu_rep) ** (rho - 1.0), -INFINITY)
            log_hazard = np.where(hazard > 0, np.log(np.where(hazard > 0, hazard, 1.0)), hazard)
        log_hazard = np.where(event_bool != 0, log_hazard, 0.0)
        return (-(log_surv + log_hazard)).sum(axis=1)

    @staticmethod
    def regul_pop(x, mean, std):
        return normal_nll(x, mean, std).sum()

    @staticmethod
    def regul_ind(x, mean, std):
        """x (n, k) -> (n,)"""
        r = normal_nll(x, mean, std)
        return r.reshape(r.shape[0], -1).sum(axis=1)


def info_for_kind(kind_info: dict) -> RefModel:
    fam = kind_info["family"]
    obs = kind_info["obs"]
    if obs is None:
        if fam == "shared_speed_logistic":
            obs = "gaussian-diagonal"
        elif fam == "joint":
            obs = "gaussian-diagonal" if (kind_info["sources"] and not kind_info["uni"]) else "gaussian-scalar"
        else:
            obs = "gaussian-scalar"
    return RefModel(fam, kind_info["sources"], obs, event=kind_info["event"])


# ---------------------------------------------------------------- M-step closed forms
def saem_blend(prev, cur, k, n_burn_in, power):
    """Robbins-Monro recursion of the sufficient statistics."""
    if k <= n_burn_in + 1:
        return cur
    e = float(k - n_burn_in) ** (-power)
    return (1.0 - e) * prev + e * cur
