"""Bridge between a simulated world (torch independent values) and RefMath (numpy float64)."""
from __future__ import annotations

import numpy as np

from ..core import workload
from . import refmath as rm


def hyper(variables, name):
    from leaspy.variables.specs import Hyperparameter

    v = variables.get(name) if hasattr(variables, "get") else (variables[name] if name in variables else None)
    if isinstance(v, Hyperparameter):
        return rm.f64(v.value)
    return None


def value_of(variables, indep, name):
    """independent value or hyperparameter value as float64 (None if absent)."""
    if name in indep and indep[name] is not None:
        return rm.f64(indep[name])
    try:
        return hyper(variables, name)
    except Exception:
        return None


def ref_terms(kind: str, variables, indep: dict, pop_names, ind_names) -> dict:
    """All documented likelihood terms recomputed in float64 from independent values only."""
    info = workload.kind_info(kind)
    ref = rm.info_for_kind(info)
    v = {}
    for nm in pop_names:
        v[nm] = rm.f64(indep[nm])
    for nm in ("noise_std",):
        if nm in indep and indep[nm] is not None:
            v[nm] = rm.f64(indep[nm])
    geo = ref.geometry(v)
    t = rm.f64(indep["t"])
    w_t = rm.weights(indep["t"])
    xi, tau = rm.f64(indep["xi"]), rm.f64(indep["tau"])
    sources = rm.f64(indep["sources"]) if "sources" in indep and indep.get("sources") is not None else None
    model = ref.trajectory(v, t, xi, tau, sources, geo)
    out = {"model": model, "geo": geo, "w_t": w_t}
    y = rm.f64(indep["y"])
    w_y = rm.weights(indep["y"])
    att = ref.attach_y_ind(v, y, w_y, model)
    out["nll_attach_y_ind"] = att
    out["nll_attach_ind_tol"] = ref.attach_y_ind_tol(y, w_y, model)
    if info["event"]:
        ev = indep["event"]
        et = rm.f64(ev)
        eb = rm.weights(ev)
        att_e = ref.attach_event_ind(v, et, eb, xi, tau, sources)
        out["nll_attach_event_ind"] = att_e
        att = att + att_e
    out["nll_attach_ind"] = att
    out["nll_attach"] = att.sum()
    for nm in pop_names:
        mean = value_of(variables, indep, f"{nm}_mean")
        std = value_of(variables, indep, f"{nm}_std")
        out[f"nll_regul_{nm}"] = ref.regul_pop(v[nm], mean, std)
    for nm in ind_names:
        mean = value_of(variables, indep, f"{nm}_mean")
        std = value_of(variables, indep, f"{nm}_std")
        x = rm.f64(indep[nm])
        out[f"nll_regul_{nm}_ind"] = ref.regul_ind(x, mean, std)
    return out


def close64(a, b, rtol=1e-4, atol=1e-5, extra_atol=None) -> bool:
    a = np.asarray(rm.f64(a), dtype=np.float64)
    b = np.asarray(b, dtype=np.float64)
    try:
        a, b = np.broadcast_arrays(a.squeeze(), b.squeeze())
    except ValueError:
        return False
    tol = atol + rtol * np.abs(b)
    if extra_atol is not None:
        tol = tol + np.asarray(extra_atol, dtype=np.float64).squeeze()
    with np.errstate(invalid="ignore"):
        ok = (np.abs(a - b) <= tol) | (np.isnan(a) & np.isnan(b)) | ((a == b))
    return bool(np.all(ok))


def within_float32_exp_range(indep: dict, names) -> bool:
    """False when a log-scale variable is so extreme that its exponential leaves the float32 range (the state then holds
    0 or inf where the float64 reference holds 1e-56 or 1e+60: not comparable, and not a statement about the densities)."""
    for nm in names:
        if nm.startswith("log_") or nm.startswith("n_log_") or nm in ("xi", "deltas"):
            v = indep.get(nm)
            if v is None:
                continue
            a = rm.f64(v)
            # log-positions / shifts enter squared metrics (g^2, 1/(gamma (1-gamma))^2): beyond ~6.5 the float32 Householder basis
            # and the products `metric * space_shift` keep no digit for the other features (seen: deltas = -30 -> model value 1.0 for 3e-14)
            lim = 6.5 if nm in ("log_g", "deltas") else 80   # exp(6.5) * eps32 ~ 4e-5 < rtol; at 9.35 a relative error of 3.5e-3 was observed
            if a.size and np.nanmax(np.abs(a)) > lim:
                return False
    return True
