"""C19 — temperature and proposal-scale schedules stay within their documented envelopes.

Two kinds of plans: "temperature" (fitsim: whole real fits over an annealing-configuration swarm) and
"scale" (stepsim: steered acceptance histories, automaton around the adaptation of the proposal scale).
"""
from __future__ import annotations

import copy
import hashlib
import math
import warnings

import torch

from ..core.driver import EventLog, ddmin_list, new_outcome, violation
from ..core.rng import SimRng
from . import fitsim, stepsim

PROPERTY = "C19"
TIERS = {
    "quick": {"runs": 2000, "budget_s": 110, "chunk": 8},
    "thorough": {"runs": 20000, "budget_s": 900, "chunk": 16},
}
REQUIRED_PROBES = {
    "quick": ["probe.temperature_changed", "probe.annealing_finished_inside_run", "probe.scale_adapted_up", "probe.scale_adapted_down", "probe.scale_inside_band_at_boundary"],
    "thorough": ["probe.temperature_changed", "probe.annealing_finished_inside_run", "probe.scale_adapted_up", "probe.scale_adapted_down",
                 "probe.scale_inside_band_at_boundary", "probe.no_annealing", "probe.n_plateau_1", "probe.refused_configuration", "probe.window_length_1"],
}
DESCRIBE = {
    "rule": "temperature plans: one whole real fit of a minimal cohort per seeded annealing configuration (n_iter 1-60, annealing fraction or explicit count incl. 0 and > n_iter, "
            "initial temperature, n_plateau 1-12, annealing on/off), envelope automaton on algo.temperature after initialisation and after every iteration; "
            "scale plans: 6-40 real sampler steps with window length 1-6, seeded bands and factor, acceptance histories steered always / never / alternating / random, "
            "automaton on sampler.std / acceptation_history around every step; distinct = digest of the configuration (+ realised acceptance pattern); non-trivial = temperature changed or a scale was adapted",
    "distinct_measure": "digest of (annealing configuration) resp. (sampler configuration, realised acceptance pattern)",
    "real": ["AlgorithmWithAnnealingMixin (_initialize_annealing, _update_temperature)", "TensorMcmcSaemAlgorithm run loop", "GibbsSamplerMixin._update_std / _update_acceptation_rate", "all sampler classes"],
    "stub": ["randn / rand / shuffle served", "clock virtual", "stdout captured"],
    "assumptions": ["n_plateau = 1 is documented (by a warning) to stay at the initial temperature: only monotonicity, >= 1 and completion are checked for it",
                    "the adaptation factor is the harness's own arithmetic: rtol 1e-6 on adapted blocks, bit-identity on all others",
                    "oscillating annealing scheme not covered (the property speaks of the default scheme)"],
}


# =========================================================================== plans
def make_plan(seed: int, tier: str) -> dict:
    rng = SimRng(seed)
    st = rng.stream("plan")
    if st.bernoulli(0.6):
        n_iter = st.randint(1, 30 if tier == "quick" else 60)
        cfg = {"kind": "logistic_uni", "n": 3, "nf": 1, "max_visits": 3, "missing": 0.0, "gseed": st.u64() & 0xFFFFFFFF, "n_iter": n_iter,
               "n_burn_in_iter_frac": 0.5, "sampler_pop": "Gibbs", "decisions": {}}
        if st.bernoulli(0.85):
            ann = {"do_annealing": True,
                   "initial_temperature": st.choice([10, 10.0, 1.5, 3.7, 2, 1.0, 1, 100.0, 0.5, 1.0000001, round(st.uniform(1.0, 20.0), 3)]),
                   "n_plateau": st.choice([1, 2, 2, 3, 5, 7, 10, 12, st.randint(1, 12), 0, 2.5])}
            if st.bernoulli(0.5):
                ann["n_iter_frac"] = st.choice([0.5, 0.5, 0.1, 0.9, 1.0, 0.0, round(st.uniform(0, 1), 3)])
            else:
                ann["n_iter"] = st.choice([0, 1, n_iter, n_iter + 5, st.randint(0, n_iter), max(n_iter // 2, 1)])
                ann["n_iter_frac"] = None
            # keep most configurations runnable (a refusal explores nothing): plateaus that fit in the annealing iterations
            n_ann = int(ann["n_iter"]) if ann.get("n_iter") is not None else int(ann["n_iter_frac"] * n_iter)
            if st.bernoulli(0.75) and n_ann >= 1:
                ann["n_plateau"] = st.randint(2, min(12, n_ann + 1))
                if not ann["initial_temperature"] > 1:
                    ann["initial_temperature"] = st.choice([10, 2, 1.5, 3.7])
            cfg["annealing"] = ann
        else:
            cfg["annealing"] = {"do_annealing": False}
        if st.bernoulli(0.25):
            cfg["second_run"] = True
        return {"seed": seed, "tier": tier, "engine": "fitsim_c19", "type": "temperature", "world": cfg}
    cfg = stepsim.gen_world_cfg(rng.stream("world"), kinds=["logistic_diag", "logistic_uni", "linear_diag", "joint_uni", "shared_speed", "logistic_scalar"],
                                ahl_choices=(1, 2, 3, 4, 5, 6))
    lo = round(st.uniform(0.05, 0.5), 2)
    cfg["bounds"] = [lo, round(min(0.95, lo + st.uniform(0.05, 0.4)), 2)]
    cfg["factor"] = st.choice([0.1, 0.5, 0.01, 0.9, round(st.uniform(0.01, 0.99), 2)])
    n_steps = st.randint(6, 16 if tier == "quick" else 40)
    steer = st.choice(["always", "never", "alternate", "random", "random", "natural"])
    zero_start = st.randint(1, 6) if st.bernoulli(0.12) else 0
    steps = []
    for i in range(n_steps):
        is_ind = st.bernoulli(0.5)
        if steer == "always":
            dec = "accept_all" if is_ind else "accept"
        elif steer == "never":
            dec = "reject_all" if is_ind else "reject"
        elif steer == "alternate":
            dec = ("accept_all" if is_ind else "accept") if i % 2 else ("reject_all" if is_ind else "reject")
        elif steer == "random":
            dec = "random" if is_ind else st.choice(["accept", "reject"])
        else:
            dec = "natural"
        steps.append({"sel": st.randint(0, 3), "ind": is_ind, "t_inv": 1.0, "proposal": "ordinary", "decision": dec, "foreign": "none", "order": "seeded"})
    if zero_start:
        cfg["zero_start_component"] = zero_start
    return {"seed": seed, "tier": tier, "engine": "fitsim_c19", "type": "scale", "world": cfg, "steps": steps}


# =========================================================================== temperature
def derived_annealing_iterations(cfg):
    ann = cfg["annealing"]
    if ann.get("n_iter") is not None:
        return {int(ann["n_iter"])}
    frac = ann.get("n_iter_frac", 0.5)
    from decimal import Decimal

    return {int(Decimal(str(frac)) * cfg["n_iter"]), int(frac * cfg["n_iter"])}


class TemperatureMonitor(fitsim.Monitor):
    def __init__(self, out, cfg):
        self.out = out
        self.cfg = cfg
        self.C = out["counters"]
        self.prev = None
        self.trace = []
        self.changes = []

    def _expected_on(self):
        return bool(self.cfg["annealing"].get("do_annealing"))

    def before_iteration(self, w, k):
        if k != 1:
            return
        t = w.algo.temperature
        self.prev = t
        self.trace.append((0, t))
        on = self._expected_on()
        exp = self.cfg["annealing"]["initial_temperature"] if on else 1.0
        if float(t) != float(exp):
            violation(self.out, "temperature_start", f"start_not_initial:{'annealing' if on else 'no_annealing'}{':' + self.tag if getattr(self, 'tag', '') else ''}",
                      f"T0={t!r} expected {exp!r}")
        self._common(w, 0)

    def _common(self, w, k):
        t, ti = w.algo.temperature, w.algo.temperature_inv
        if not (isinstance(t, (int, float)) and math.isfinite(t)):
            violation(self.out, "temperature_envelope", "not_finite", f"k={k}: T={t!r}")
            return
        if t < 1:
            violation(self.out, "temperature_envelope", "below_one", f"k={k}: T={t!r}")
        if ti != 1 / t:
            violation(self.out, "temperature_envelope", "inverse_not_one_over_T", f"k={k}: T={t!r} T_inv={ti!r}")

    def after_sample(self, w, k, var):
        # the temperature that matters is the one the samplers are handed: it is the scheduled one, for every variable of the iteration
        ti = getattr(w, "t_inv_used", None)
        self.C["probe.sampler_temperature_checked"] += 1
        if ti is None or float(ti) != 1 / float(self.prev):
            violation(self.out, "temperature_envelope", "sampler_temperature_differs_from_schedule", f"k={k} {var}: sampler got T_inv={ti!r}, schedule says T={self.prev!r}")

    def after_temperature(self, w, k):
        t = w.algo.temperature
        self.trace.append((k, t))
        on = self._expected_on()
        self._common(w, k)
        if t > self.prev:
            violation(self.out, "temperature_envelope", "increased", f"k={k}: {self.prev!r} -> {t!r}")
        if t != self.prev:
            self.changes.append(k)
            self.C["probe.temperature_changed"] += 1
        if not on and t != 1.0:
            violation(self.out, "temperature_envelope", "not_one_without_annealing", f"k={k}: T={t!r}")
        self.prev = t

    def finish(self, completed_iterations):
        cfg = self.cfg
        if not self._expected_on():
            self.C["probe.no_annealing"] += 1
            return
        ann = cfg["annealing"]
        n_ann_adm = derived_annealing_iterations(cfg)
        n_ann = min(n_ann_adm)
        npl = ann["n_plateau"]
        if npl == 1:
            self.C["probe.n_plateau_1"] += 1
            return
        # changes only at plateau boundaries: within the annealing iterations, multiples of one common period,
        # the period being what n_plateau plateaus spread over the annealing iterations leave to each
        if self.changes and isinstance(npl, int) and npl >= 2:
            periods = {n // (npl - 1) for n in n_ann_adm if n // (npl - 1) >= 1} or {self.changes[0]}
            bad = [k for k in self.changes if k > max(n_ann_adm) or all(k % p != 0 for p in periods)]
            if bad:
                violation(self.out, "temperature_plateaus", f"change_outside_plateau_boundary:{'after_annealing' if bad[0] > max(n_ann_adm) else 'not_multiple_of_period'}",
                          f"changes at {self.changes[:12]} n_annealing={sorted(n_ann_adm)} n_plateau={npl}")
        # every change is one equal step (T0 - 1) / (n_plateau - 1), the last one possibly shortened to land on 1
        if isinstance(npl, int) and npl >= 2:
            d = (ann["initial_temperature"] - 1.0) / (npl - 1)
            vals = dict(self.trace)
            prev_t = self.trace[0][1]
            for k, t in self.trace[1:]:
                if t != prev_t:
                    step = prev_t - t
                    if not (abs(step - d) <= 1e-9 * max(1.0, abs(d)) or (t == 1.0 and step <= d * (1 + 1e-9))):
                        violation(self.out, "temperature_plateaus", "unequal_temperature_step", f"k={k}: {prev_t!r} -> {t!r}, expected step {d!r}")
                        break
                prev_t = t
        # exactly 1 once the annealing iterations are over
        after = [(k, t) for k, t in self.trace if k >= max(n_ann_adm) and k >= 1]
        if after:
            self.C["probe.annealing_finished_inside_run"] += 1
            k, t = after[0]
            wrong = [(kk, tt) for kk, tt in after if tt != 1.0]
            if wrong:
                kk, tt = wrong[0]
                if abs(tt - 1.0) < 1e-9:
                    cls = "one_ulp_off"
                elif n_ann == 0:
                    cls = "zero_annealing_iterations_keep_initial_temperature"
                else:
                    cls = "still_above_one"
                violation(self.out, "temperature_end", f"not_exactly_one_after_annealing:{cls}",
                          f"k={kk}: T={tt!r} (n_iter={cfg['n_iter']}, annealing iterations={sorted(n_ann_adm)}, n_plateau={npl}, T0={ann['initial_temperature']})")


def valid_annealing(cfg):
    """Documented requirements of the default scheme: n_plateau positive integer, initial temperature > 1 (when n_plateau >= 2)."""
    ann = cfg["annealing"]
    if not ann.get("do_annealing"):
        return True
    npl = ann["n_plateau"]
    if not (isinstance(npl, int) and npl > 0):
        return False
    if npl >= 2 and not ann["initial_temperature"] > 1:
        return False
    return True


def run_temperature(plan, out, log):
    from leaspy.exceptions import LeaspyAlgoInputError, LeaspyConvergenceError

    cfg = plan["world"]
    mon = TemperatureMonitor(out, cfg)
    C = out["counters"]
    world = fitsim.FitWorld(cfg, log, C, [mon])
    exc = world.run()
    done = len([1 for k, _ in mon.trace if k >= 1])
    ok_cfg = valid_annealing(cfg)
    ann = cfg["annealing"]
    desc = f"n_iter={cfg['n_iter']} annealing={ann}"
    if isinstance(exc, LeaspyAlgoInputError):
        # a refusal is legitimate whatever the configuration, provided it comes before anything is run
        C["probe.refused_configuration"] += 1
        if done > 0:
            violation(out, "completes", "refused_after_iterations_started", f"{desc}: after {done} iterations")
    elif isinstance(exc, LeaspyConvergenceError):
        C["abort.convergence_error"] += 1
    elif exc is not None:
        n_ann = min(derived_annealing_iterations(cfg)) if ann.get("do_annealing") else None
        where = "other"
        import traceback

        tb = "".join(traceback.format_tb(exc.__traceback__)[-2:])
        if "_update_temperature" in tb:
            where = "_update_temperature"
        elif "_initialize_annealing" in tb:
            where = "_initialize_annealing"
        # accepted (not refused with an algorithm-input error) but did not run to completion
        violation(out, "completes", f"accepted_configuration_raised:{type(exc).__name__}:{where}",
                  f"{desc} (annealing iterations={n_ann}): {type(exc).__name__}: {exc}")
    else:
        if done != cfg["n_iter"]:
            violation(out, "completes", "iterations_missing", f"{done} != {cfg['n_iter']}")
        if not ok_cfg:
            C["probe.undocumented_configuration_accepted"] += 1
        mon.finish(done)
        if cfg.get("second_run") and not out["violations"]:
            # the same algorithm object run once more (on a fresh model): the schedule starts over
            mon2 = TemperatureMonitor(out, cfg)
            mon2.tag = "second_run_of_the_same_algorithm_object"
            world.monitors = [mon2]
            exc2 = world.run(rerun=True)
            C["probe.algorithm_object_run_twice"] += 1
            done2 = len([1 for k, _ in mon2.trace if k >= 1])
            if exc2 is None:
                if done2 != cfg["n_iter"]:
                    violation(out, "completes", "iterations_missing:second_run", f"{done2} != {cfg['n_iter']}")
                mon2.finish(done2)
            elif isinstance(exc2, fitsim.RerunSetupFailed):
                C["skip.second_run_model_not_initialisable"] += 1
            elif not isinstance(exc2, LeaspyConvergenceError):
                violation(out, "completes", f"second_run_raised:{type(exc2).__name__}", f"{desc}: {type(exc2).__name__}: {exc2}")
            log.add("T2", [round(float(t), 12) if isinstance(t, (int, float)) else str(t) for _, t in mon2.trace])
    log.add("T", [round(float(t), 12) if isinstance(t, (int, float)) else str(t) for _, t in mon.trace])
    key = (cfg["n_iter"], sorted((k, str(v)) for k, v in ann.items()))
    out["keys"].add("run:" + hashlib.sha1(repr(key).encode()).hexdigest()[:16])
    out["nontrivial"] = bool(mon.changes) or C["probe.refused_configuration"] > 0
    out["sample"] = {"type": "temperature", "n_iter": cfg["n_iter"], "annealing": ann, "trace": [(k, t) for k, t in mon.trace][:14]}
    out["virtual_s"] = world.clock.now - 1_700_000_000.0


# =========================================================================== proposal scale
def run_scale(plan, out, log):
    C = out["counters"]
    cfg = plan["world"]
    from leaspy.exceptions import LeaspyInputError

    try:
        world = stepsim.StepWorld(cfg, log, C)
    except Exception as e:
        if not isinstance(e, LeaspyInputError):
            raise _Setup(f"{type(e).__name__}")      # (cohort on which the model cannot be initialised: nothing to observe)
        if cfg.get("zero_start_component") and "should be positive" in str(e):
            # a start value without a usable default scale is refused before anything runs: consistent with the envelope
            C["probe.degenerate_start_refused"] += 1
            out["nontrivial"] = True
            out["keys"].add("run:zero-start-refused:" + cfg["kind"])
            out["sample"] = {"type": "scale", "world": {k: v for k, v in cfg.items() if k != "gseed"}, "note": "refused: zero component in a start value"}
            return
        raise
    # scales as constructed: positive and finite, component by component
    for nm, smp in world.algo.samplers.items():
        std = smp.std
        if not bool(torch.isfinite(std).all()) or not bool((std > 0).all()):
            violation(out, "scale_envelope", "scale_not_positive_finite:at_construction", f"{nm}: std = {std.reshape(-1)[:6].tolist()}")
            return
    L = cfg["ahl"]
    lo, hi = cfg["bounds"]
    f = cfg["factor"]
    if L == 1:
        C["probe.window_length_1"] += 1
    pattern = []
    with world.installed(), warnings.catch_warnings():
        warnings.simplefilter("ignore")
        for si, step in enumerate(plan["steps"]):
            names = world.ind_names if step["ind"] else world.pop_names
            var = names[step["sel"] % len(names)]
            rec = world.sample(var, 1.0, step)
            if rec.error:
                C["abort.sampler_raised"] += 1
                break
            C["steps.sample"] += 1
            smp = rec.sampler
            where = f"step{si}:{var}:{rec.kind}:L={L}:bounds={lo},{hi}:f={f}"
            # acceptance of this call, in the layout of the sampler's history
            acc = torch.zeros_like(rec.std_before)
            if rec.is_ind:
                acc = rec.blocks[0].accepted.float()
            else:
                for b in rec.blocks:
                    acc[b.idx] = float(b.accepted)
            pattern.append("".join(str(int(x)) for x in acc.reshape(-1).tolist()))
            exp_hist = torch.cat([rec.hist_before[1:], acc.unsqueeze(0)])
            if rec.hist_after.shape != exp_hist.shape or not torch.equal(rec.hist_after, exp_hist):
                violation(out, "acceptance_window", f"window_not_last_L_decisions:{'ind' if rec.is_ind else 'pop'}", f"{where}")
                break
            calls = rec.counter_before + 1
            std0, std1 = rec.std_before, rec.std_after
            if not bool(torch.isfinite(std1).all()) or not bool((std1 > 0).all()):
                violation(out, "scale_envelope", "scale_not_positive_finite", f"{where}: {std1.reshape(-1)[:5].tolist()}")
                break
            if calls % L != 0:
                if not torch.equal(std0, std1):
                    violation(out, "scale_envelope", f"changed_off_window_boundary:call_{calls % L}_of_{L}", f"{where}: call {calls}")
                    break
                continue
            mean = exp_hist.mean(dim=0)
            low, high = mean < lo, mean > hi
            inside = ~(low | high)
            if bool(inside.any()):
                C["probe.scale_inside_band_at_boundary"] += 1
            if bool(low.any()):
                C["probe.scale_adapted_down"] += 1
            if bool(high.any()):
                C["probe.scale_adapted_up"] += 1
            if not torch.equal(std1[inside], std0[inside]):
                violation(out, "scale_envelope", "changed_inside_target_band", f"{where}: window means {mean.reshape(-1)[:6].tolist()}")
                break
            ok_low = torch.allclose(std1[low], std0[low] * (1 - f), rtol=1e-6, atol=0)
            ok_high = torch.allclose(std1[high], std0[high] * (1 + f), rtol=1e-6, atol=0)
            if not (ok_low and ok_high):
                ratio = (std1 / std0).reshape(-1)
                cls = "inverted" if (bool(low.any()) and torch.allclose(std1[low], std0[low] * (1 + f), rtol=1e-6)) or \
                    (bool(high.any()) and torch.allclose(std1[high], std0[high] * (1 - f), rtol=1e-6)) else "wrong_factor"
                violation(out, "scale_envelope", f"adaptation_factor:{cls}", f"{where}: ratios {ratio[:6].tolist()} means {mean.reshape(-1)[:6].tolist()}")
                break
    key = (cfg["kind"], cfg["sampler_pop"], L, lo, hi, f, tuple(pattern))
    out["keys"].add("run:" + hashlib.sha1(repr(key).encode()).hexdigest()[:16])
    out["nontrivial"] = C["probe.scale_adapted_down"] + C["probe.scale_adapted_up"] > 0
    out["sample"] = {"type": "scale", "world": {k: v for k, v in cfg.items() if k != "gseed"}, "acceptance_pattern": pattern[:10]}


def run_plan(plan: dict) -> dict:
    out = new_outcome(plan)
    log = EventLog()
    torch.set_num_threads(1)
    try:
        if plan["type"] == "temperature":
            run_temperature(plan, out, log)
        else:
            run_scale(plan, out, log)
    except _Setup as e:
        out["discarded"] = f"setup:{e}"
    out["counters"]["type." + plan["type"]] += 1
    out["digest"] = log.digest()
    return out


class _Setup(Exception):
    pass


def shrink(plan: dict):
    if plan["type"] == "scale":
        for cand in ddmin_list(plan["steps"]):
            if cand:
                p = dict(plan)
                p["steps"] = cand
                yield p
        return
    w = plan["world"]
    for n in sorted({1, 2, 3, 4, 6, 8, w["n_iter"] // 2, w["n_iter"] - 1}):
        if 1 <= n < w["n_iter"]:
            p = copy.deepcopy(plan)
            p["world"]["n_iter"] = n
            yield p
    ann = w["annealing"]
    if ann.get("do_annealing"):
        for key, vals in (("initial_temperature", [2, 10]), ("n_plateau", [2, 3])):
            for v in vals:
                if ann.get(key) != v:
                    p = copy.deepcopy(plan)
                    p["world"]["annealing"][key] = v
                    yield p
