"""C17 — personalisation returns one aligned, finite, non-worsening estimate per subject (persosim)."""
from __future__ import annotations

import copy
import hashlib
import math
from decimal import Decimal

import numpy as np
import torch

from ..core import workload
from ..core.driver import EventLog, new_outcome, violation
from ..core.rng import SimRng, Stream
from . import apisim_common as ac
from . import persosim

PROPERTY = "C17"
TIERS = {
    "quick": {"runs": 1000, "budget_s": 115, "chunk": 3},
    "thorough": {"runs": 10000, "budget_s": 900, "chunk": 6},
}
REQUIRED_PROBES = {
    "quick": ["probe.mean_posterior_checked", "probe.mode_posterior_checked", "probe.scipy_non_worsening_checked", "probe.one_visit_individual"],
    "thorough": ["probe.mean_posterior_checked", "probe.mode_posterior_checked", "probe.scipy_non_worsening_checked", "probe.one_visit_individual",
                 "probe.cohort_of_one", "probe.rejection_streak", "probe.annealing_on", "probe.jobs_interleaved", "probe.numeric_ids", "probe.fitted_model"],
}
DESCRIBE = {
    "rule": "one case = one model (hand-written parameters or freshly fitted) + one cohort (1-8 individuals, one-visit individuals, missing data, numeric-looking ids in any order) + "
            "one personalisation call (mean_posterior / mode_posterior: n_iter 2-40, burn-in fraction in [0,1), annealing on/off, forced rejection streaks; scipy_minimize: seeded job order "
            "or parked threads interleaved at every objective evaluation); sampling-based results are recomputed from the chain recorded by the simulator (state after every iteration through "
            "RefEval), optimisation-based ones from the recorded objective evaluations; distinct = configuration digest; non-trivial = result compared with the recorded history",
    "distinct_measure": "digest of (model kind, algorithm, cohort shape, n_iter, burn-in, annealing, schedule, decisions)",
    "real": ["McmcPersonalizeAlgorithm / MeanPosterior / ModePosterior / ScipyMinimizeAlgorithm", "scipy.optimize.minimize (Powell)", "individual Gibbs sampler, State, IndividualParameters"],
    "stub": ["randn / rand / shuffle served", "joblib.Parallel / delayed replaced by SimParallel (per-job code is real)", "stdout captured"],
    "assumptions": ["burn-in fraction 1 keeps no draw and has no defined mean: excluded", "mode: the returned draw must be a kept draw whose loss is within 1e-6 relative of the minimum recomputed in float64 "
                    "(leaspy sums the regularities in a hash-seed dependent order)", "non-worsening: f(returned) <= f(first evaluated point) + 1e-6 (1 + |f|)"],
}
KINDS = ["logistic_diag", "logistic_scalar", "logistic_uni", "logistic_diag_nosrc", "linear_diag", "linear_uni", "shared_speed", "joint_uni", "joint_multi", "joint_ev2", "logistic_binary"]


def make_plan(seed: int, tier: str) -> dict:
    rng = SimRng(seed)
    st = rng.stream("plan")
    kind = st.choice(KINDS)
    info = workload.kind_info(kind)
    nf = 1 if info["uni"] else st.choice([2, 3])
    algo = st.choice(["mean_posterior", "mode_posterior", "scipy_minimize"])
    n = st.choice([1, 1, 2, 3, 5, 8])
    id_style = st.choice(["S", "num", "num_desc", "mixed"])
    plan = {"seed": seed, "tier": tier, "engine": "persosim_c17", "kind": kind, "nf": nf, "algo": algo, "n": n, "id_style": id_style,
            "fitted": st.bernoulli(0.15), "gseed": st.u64() & 0xFFFFFFFF, "max_visits": st.randint(1, 4), "missing": st.choice([0.0, 0.2]),
            "aseed": st.randint(0, 9)}
    if algo == "scipy_minimize":
        plan["schedule"] = st.choice(["sequential", "shuffled", "threads"]) if n > 1 else "sequential"
        plan["workers"] = st.randint(2, 4)
        plan["n_jobs"] = st.choice([1, 2, 3, 4])
        # documented optimiser options (drawn last so that earlier plan fields keep their values)
        if st.bernoulli(0.3):
            plan["use_jacobian"] = False
        if st.bernoulli(0.35):
            plan["custom_scipy"] = st.choice([
                {"method": "Powell", "options": {"maxiter": st.randint(1, 3)}},                      # stops unconverged: the convergence-issue path
                {"method": "Nelder-Mead", "options": {"maxiter": 25}},
                {"method": "Powell", "options": {"xtol": 1e-2, "ftol": 1e-2, "maxiter": 50}},
                {"method": "L-BFGS-B", "options": {"maxiter": 15}},                                 # finite-difference gradient
            ])
    else:
        n_iter = st.randint(2, 14 if tier == "quick" else 40)
        plan["n_iter"] = n_iter
        if st.bernoulli(0.3):
            plan["n_burn_in_iter"] = st.randint(0, n_iter - 1)
            plan["n_burn_in_iter_frac"] = None
        else:
            plan["n_burn_in_iter_frac"] = st.choice([0.0, 0.1, 0.29, 0.5, 0.9, round(st.uniform(0, 0.99), 3)])
        if st.bernoulli(0.25) and n_iter >= 6:
            plan["annealing"] = {"do_annealing": True, "initial_temperature": st.choice([2, 5, 10]), "n_plateau": st.randint(2, 3), "n_iter_frac": 0.5}
            plan["annealing"]["n_iter_frac"] = st.choice([0.5, 0.5, 0.2, 0.9])
        dec = {}
        streak = st.bernoulli(0.4)
        for k in range(1, n_iter + 1):
            if streak and st.bernoulli(0.6):
                dec[str(k)] = "reject_all"
            elif st.bernoulli(0.15):
                dec[str(k)] = st.choice(["accept_all", "alternate"])
        plan["decisions"] = dec
    return plan


def build(plan):
    kind, nf = plan["kind"], plan["nf"]
    info = workload.kind_info(kind)
    st = Stream(plan["gseed"], "model")
    with ac.quiet():
        if plan["fitted"]:
            df0 = workload.make_cohort(st, kind=kind, n=5, n_features=nf, max_visits=3, id_prefix="t")
            model = workload.make_model(kind, nf)
            model.fit(workload.to_data(df0, kind), "mcmc_saem", n_iter=4, seed=1, progress_bar=False)
        else:
            model = ac.load_from_settings(ac.handwritten_settings(st, kind, nf))
        df = workload.make_cohort(Stream(plan["gseed"], "cohort"), kind=kind, n=max(plan["n"], 2), n_features=nf, max_visits=max(plan["max_visits"], 1),
                                  min_visits=1, missing_rate=plan["missing"], ensure_two_visits=0, id_prefix="S")
        ids0 = list(dict.fromkeys(df["ID"]))[: plan["n"]]
        df = df[df["ID"].isin(ids0)].reset_index(drop=True)
        style = plan["id_style"]
        if style == "num":
            ren = {p: str(10 + i) for i, p in enumerate(ids0)}
        elif style == "num_desc":
            ren = {p: str(900 - 7 * i) for i, p in enumerate(ids0)}
        elif style == "mixed":
            ren = {p: (f"z{i}" if i % 2 else str(5 - i)) for i, p in enumerate(ids0)}
        else:
            ren = {p: p for p in ids0}
        df["ID"] = df["ID"].map(ren)
        if info["event"] and plan["n"] >= 2:
            ids = list(dict.fromkeys(df["ID"]))
            df.loc[df["ID"] == ids[0], "EVENT_BOOL"] = 1
            df.loc[df["ID"] == ids[-1], "EVENT_BOOL"] = 0
        data = workload.to_data(df, kind)
    return model, df, data


def expected_burn_in(plan):
    if plan.get("n_burn_in_iter") is not None:
        return {int(plan["n_burn_in_iter"])}
    frac = plan["n_burn_in_iter_frac"]
    return {int(Decimal(str(frac)) * plan["n_iter"]), int(frac * plan["n_iter"])}


def run_plan(plan: dict) -> dict:
    out = new_outcome(plan)
    log = EventLog()
    torch.set_num_threads(1)
    C = out["counters"]
    try:
        model, df, data = build(plan)
    except Exception as e:
        out["discarded"] = f"setup:{type(e).__name__}"
        out["digest"] = "setup-failed"
        return out
    kind, algo = plan["kind"], plan["algo"]
    info = workload.kind_info(kind)
    ids = list(dict.fromkeys(df["ID"]))
    n = len(ids)
    C[f"model.{kind}"] += 1
    C[f"algo.{algo}"] += 1
    if n == 1:
        C["probe.cohort_of_one"] += 1
    if (df.groupby("ID").size() == 1).any():
        C["probe.one_visit_individual"] += 1
    if plan["id_style"] != "S":
        C["probe.numeric_ids"] += 1
    if plan["fitted"]:
        C["probe.fitted_model"] += 1
    cfg = {"gseed": plan["gseed"], "decisions": plan.get("decisions", {}), "schedule": plan.get("schedule", "sequential"), "workers": plan.get("workers", 2)}
    world = persosim.PersoWorld(cfg, model, data, log, C)
    kw = dict(seed=plan["aseed"], progress_bar=False)
    if algo == "scipy_minimize":
        kw["n_jobs"] = plan["n_jobs"]
        if "use_jacobian" in plan:
            kw["use_jacobian"] = plan["use_jacobian"]
        if plan.get("custom_scipy"):
            kw["custom_scipy_minimize_params"] = copy.deepcopy(plan["custom_scipy"])
            C["probe.custom_optimiser_options"] += 1
    else:
        kw["n_iter"] = plan["n_iter"]
        for k in ("n_burn_in_iter", "n_burn_in_iter_frac", "annealing"):
            if k in plan:
                kw[k] = plan[k]
        if plan.get("annealing"):
            C["probe.annealing_on"] += 1
    ip, exc = world.run(algo, **kw)
    where = f"kind={kind} algo={algo} n={n} ids={ids[:4]}"
    if exc is not None:
        from leaspy.exceptions import LeaspyInputError

        if isinstance(exc, LeaspyInputError) and algo != "scipy_minimize" and plan.get("n_burn_in_iter") is not None \
                and 0 <= plan["n_burn_in_iter"] < plan["n_iter"] and not plan.get("annealing") and "burn" in str(exc).lower():
            # an explicit burn-in count inside [0, n_iter) is a documented setting: refusing it returns no estimate at all
            violation(out, "completes", f"valid_burn_in_count_refused:{algo}:count_{'zero' if plan['n_burn_in_iter'] == 0 else 'positive'}", f"{where}: {str(exc)[:200]}")
        elif isinstance(exc, LeaspyInputError):
            out["discarded"] = f"refused:{type(exc).__name__}"
        else:
            violation(out, "completes", f"personalize_raised:{algo}:{type(exc).__name__}:{info['family']}", f"{where}: {type(exc).__name__}: {str(exc)[:300]}")
        out["digest"] = log.digest()
        return _finish(out, plan, log)
    # ---------------------------------------------------------------- alignment / shape / finiteness
    got_ids = list(ip._indices)
    if got_ids != [str(i) for i in ids]:
        cls = "sorted" if got_ids == sorted(str(i) for i in ids) else ("count" if len(got_ids) != n else "order_or_keys")
        violation(out, "alignment", f"ids_not_input_ids_in_input_order:{cls}:{algo}", f"{where}: got {got_ids[:6]}")
        return _finish(out, plan, log)
    ns = model.source_dimension or 0
    vals = {}
    for pid in got_ids:
        d = ip[pid]
        exp_keys = {"xi", "tau"} | ({"sources"} if ns else set())
        if set(d) != exp_keys:
            violation(out, "alignment", f"parameter_names:{algo}", f"{where}: {pid}: {sorted(d)}")
            continue
        for k, v in d.items():
            a = np.atleast_1d(np.asarray(v, dtype=np.float64))
            exp_len = ns if k == "sources" else 1
            if a.shape != (exp_len,):
                violation(out, "alignment", f"parameter_shape:{k}:{algo}", f"{where}: {pid}: {k} shape {a.shape}")
            if not np.isfinite(a).all():
                n_vis = int((df["ID"] == pid).sum())
                violation(out, "finite", f"non_finite_individual_parameter:{algo}:{info['family']}:{'one_visit' if n_vis == 1 else 'several_visits'}",
                          f"{where}: {pid}: {k} = {a.tolist()} ({n_vis} visits)")
            vals.setdefault(pid, {})[k] = a
    if out["violations"]:
        return _finish(out, plan, log)
    # ---------------------------------------------------------------- algorithm-specific oracles
    if algo == "scipy_minimize":
        for pid in got_ids:
            ev = world.evals.get(pid)
            if not ev:
                violation(out, "harness", "no_objective_evaluation_recorded", f"{where}: {pid}")
                continue
            f0, f1 = ev[0][1], ev[-1][1]
            if math.isnan(f0):
                # degenerate model (e.g. a two-event joint model fitted for 3 iterations with an event shape of e^75): the objective is
                # NaN at the starting point already, so "not worse than the start" says nothing; finiteness of the output was checked above
                C["skip.start_objective_nan"] += 1
                continue
            C["probe.scipy_non_worsening_checked"] += 1
            if math.isnan(f1) or f1 > f0 + 1e-6 * (1 + abs(f0)):
                violation(out, "non_worsening", f"objective_worse_than_start:{info['family']}", f"{where}: {pid}: f(start)={f0!r} f(returned)={f1!r} after {len(ev)} evaluations")
        # the estimate returned under an identifier belongs to *that* individual: re-evaluate the returned point on a state
        # the harness builds itself from the input rows of that individual, and compare with the loss the optimiser ended with
        if not info["event"]:
            from leaspy.io.data import Dataset

            for pid in got_ids:
                ev = world.evals.get(pid)
                if not ev:
                    continue
                try:
                    with ac.quiet():
                        sub = df[df["ID"] == pid].reset_index(drop=True)
                        ds = Dataset(workload.to_data(sub, kind), no_warning=True)
                        st_ = model.state.clone(disable_auto_fork=True)
                        model.put_data_variables(st_, ds)
                        for k_, v_ in vals[pid].items():
                            st_[k_] = torch.tensor(v_, dtype=torch.float32).reshape(1, -1)
                        loss = float(st_["nll_attach"] + st_["nll_regul_ind_sum"])
                except Exception as e:
                    C["skip.reevaluation_error:" + type(e).__name__] += 1
                    continue
                C["probe.returned_point_reevaluated"] += 1
                f1 = ev[-1][1]
                if not (abs(loss - f1) <= 1e-3 * (1 + abs(f1))):
                    violation(out, "alignment", f"estimate_not_optimised_on_own_data:{info['family']}:{'unsorted_ids' if got_ids != sorted(got_ids) else 'sorted_ids'}",
                              f"{where}: {pid}: objective of the returned point on this individual's own rows = {loss!r}, optimiser ended at {f1!r}")
                    break
        log.add("scipy", [len(world.evals.get(p, [])) for p in got_ids], world.interleaving_switches)
    else:
        nb_adm = expected_burn_in(plan)
        chain = world.chain
        if len(chain) != plan["n_iter"]:
            violation(out, "harness", "chain_length", f"{len(chain)} != {plan['n_iter']}")
            return _finish(out, plan, log)
        ok_any = False
        msgs = []
        for nb in sorted(nb_adm):
            kept = [c for c in chain if c["k"] > nb]
            if not kept:
                continue
            msg = _check_sampling(algo, kept, got_ids, vals, ns)
            if msg is None:
                ok_any = True
                break
            msgs.append((nb, msg))
        # rejection streaks produce exact ties
        for a, b in zip(chain, chain[1:]):
            if all(torch.equal(a["values"][k], b["values"][k]) for k in a["values"]):
                C["probe.rejection_streak"] += 1
                break
        C[f"probe.{algo}_checked"] += 1
        if not ok_any and msgs:
            nb, (sig, detail) = msgs[0]
            # which set of draws does explain the answer?
            alt = None
            for name, sel in (("all_draws_including_burn_in", chain), ("off_by_one_more", [c for c in chain if c["k"] > nb + 1]), ("off_by_one_less", [c for c in chain if c["k"] > nb - 1])):
                if sel and _check_sampling(algo, sel, got_ids, vals, ns) is None:
                    alt = name
                    break
            violation(out, "posterior_summary", f"{sig}:{alt or 'unexplained'}", f"{where}: n_iter={plan['n_iter']} burn-in={nb}: {detail}")
        log.add("chain", len(chain), sorted(nb_adm))
    return _finish(out, plan, log)


def _check_sampling(algo, kept, ids, vals, ns):
    names = sorted(kept[0]["values"])
    if algo == "mean_posterior":
        for nm in names:
            stack = torch.stack([c["values"][nm] for c in kept]).double()
            mean = stack.mean(dim=0).numpy()
            for i, pid in enumerate(ids):
                g = vals[pid][nm]
                e = mean[i].reshape(-1)
                if not np.allclose(g, e, rtol=1e-5, atol=1e-6):
                    return ("mean_of_kept_draws", f"{pid}: {nm} returned {g.tolist()} mean of kept draws {e.tolist()}")
        return None
    # mode: per individual, the kept draw minimising attachment + regularity (jointly over variables)
    loss = torch.stack([c["attach"] + c["regul"] for c in kept])    # (K, n)
    for i, pid in enumerate(ids):
        li = loss[:, i]
        lmin = float(li.min())
        match = None
        for j, c in enumerate(kept):
            if all(np.array_equal(np.asarray(c["values"][nm][i], dtype=np.float64).reshape(-1), vals[pid][nm]) for nm in names):
                match = j if match is None or float(li[j]) < float(li[match]) else match
        if match is None:
            return ("mode_not_a_kept_draw", f"{pid}: returned {[vals[pid][nm].tolist() for nm in names]} is no kept draw (jointly over variables)")
        if float(li[match]) > lmin + 1e-6 * (1 + abs(lmin)):
            return ("mode_not_lowest_loss", f"{pid}: loss of returned draw {float(li[match])!r} > minimum over kept draws {lmin!r}")
    return None


def _finish(out, plan, log):
    C = out["counters"]
    key = tuple((k, str(v)) for k, v in sorted(plan.items()) if k not in ("seed", "tier", "engine", "gseed", "aseed"))
    out["keys"].add("run:" + hashlib.sha1(repr(key).encode()).hexdigest()[:16])
    out["nontrivial"] = C["probe.mean_posterior_checked"] + C["probe.mode_posterior_checked"] + C["probe.scipy_non_worsening_checked"] > 0 or bool(out["violations"])
    out["digest"] = log.digest()
    out["sample"] = {k: v for k, v in plan.items() if k not in ("seed", "tier", "engine", "gseed")}
    return out


def shrink(plan: dict):
    for key, vals in (("n", [1, 2]), ("max_visits", [1, 2]), ("missing", [0.0]), ("fitted", [False]), ("id_style", ["S"]), ("n_iter", [2, 3, 5]),
                      ("schedule", ["sequential"]), ("n_jobs", [1])):
        for v in vals:
            if key in plan and plan[key] != v and (not isinstance(v, int) or isinstance(v, bool) or v < plan[key]):
                p = copy.deepcopy(plan)
                p[key] = v
                if key == "n_iter":
                    p["decisions"] = {k: x for k, x in plan.get("decisions", {}).items() if int(k) <= v}
                    if p.get("n_burn_in_iter") is not None:
                        p["n_burn_in_iter"] = min(p["n_burn_in_iter"], v - 1)
                    p.pop("annealing", None)
                yield p
    if plan.get("decisions"):
        p = copy.deepcopy(plan)
        p["decisions"] = {}
        yield p
    if plan.get("annealing"):
        p = copy.deepcopy(plan)
        p.pop("annealing")
        yield p
