"""fitsim — the real `model.fit(...)` end to end under the seams, with observers at step boundaries.

Control flow of leaspy is untouched; monitors (one per property) get call-backs:
    on_start(world) / before_iteration(world, k) / before_mstep / after_suffstats / before_update / after_update /
    after_mstep / after_temperature(world, k) / after_iteration(world, k) / on_end(world, exc)
"""
from __future__ import annotations

import contextlib
import io
import math
import warnings

import numpy as np
import torch

from ..core import workload
from ..core.driver import tdigest
from ..core.rng import Stream
from ..core.seams import VirtualClock, observe, rng_seams
from ..ref.refeval import RefEval

F32_ONE_MINUS = float(np.nextafter(np.float32(1.0), np.float32(0.0)))


class Monitor:
    def on_start(self, w): ...
    def before_iteration(self, w, k): ...
    def before_mstep(self, w, k): ...
    def after_suffstats(self, w, k, s): ...
    def before_update(self, w, k, S, burn_in): ...
    def after_update(self, w, k, S, burn_in): ...
    def after_mstep(self, w, k): ...
    def after_temperature(self, w, k): ...
    def after_iteration(self, w, k): ...
    def before_center(self, w, k): ...
    def after_center(self, w, k): ...
    def after_sample(self, w, k, var): ...
    def on_end(self, w, exc): ...


class FitWorld:
    def __init__(self, cfg: dict, log, counters, monitors=()):
        self.cfg = cfg
        self.log = log
        self.counters = counters
        self.monitors = list(monitors)
        self.k = 0
        self.call_no = 0
        self.pending_alpha = None
        self.algo = None
        self.state = None
        self.exc = None
        self.depth_ss = 0
        self.clock = VirtualClock()
        self.rand_calls = 0
        self.randn_calls = 0
        self.t_inv_used = None
        self._build()

    def _build(self):
        from leaspy.io.data import Dataset

        cfg = self.cfg
        st = Stream(cfg["gseed"], "cohort")
        with warnings.catch_warnings(), contextlib.redirect_stdout(io.StringIO()):
            warnings.simplefilter("ignore")
            df = workload.make_cohort(st, kind=cfg["kind"], n=cfg["n"], n_features=cfg["nf"], max_visits=cfg["max_visits"],
                                      missing_rate=cfg["missing"], whole_feature_missing=cfg.get("whole_ft", False), baseline_axis=bool(cfg.get("baseline_axis")))
            self.df = df
            self.data = workload.to_data(df, cfg["kind"])
            self.dataset = Dataset(self.data)
            mk = {}
            if cfg.get("init_random") and workload.kind_info(cfg["kind"])["family"] != "linear":
                mk["initialization_method"] = "random"   # (drawn from torch's generator, seeded from the plan just below / by the fit)
            self.model = workload.make_model(cfg["kind"], cfg["nf"], source_dimension=cfg.get("sd"), **mk)

    # ------------------------------------------------------------------ seams
    def on_shuffle(self, lst, where):
        st = Stream(self.cfg["gseed"], "shuffle", self.k, where, self.call_no)
        self.call_no += 1
        lst[:] = st.shuffle(lst)

    def on_randn(self, shape, kw):
        numel = int(np.prod(shape)) if len(shape) else 1
        st = Stream(self.cfg["gseed"], "z", self.k, self.call_no)
        self.call_no += 1
        self.randn_calls += 1
        z = torch.tensor(st.normals(numel), dtype=torch.float32).reshape(shape)
        plan = self.cfg.get("proposal_faults") or {}
        f = plan.get(str(self.k))
        if f == "tail":
            z = z * 5.0
            self.counters["fault.tail_proposal"] += 1
        return z

    def on_rand(self, shape, kw):
        numel = int(np.prod(shape)) if len(shape) else 1
        st = Stream(self.cfg["gseed"], "u", self.k, self.call_no)
        self.call_no += 1
        self.rand_calls += 1
        u = torch.tensor([st.random() for _ in range(numel)], dtype=torch.float32).reshape(shape).clamp(max=F32_ONE_MINUS)
        style = (self.cfg.get("decisions") or {}).get(str(self.k), "natural")
        a = self.pending_alpha
        self.pending_alpha = None
        if style != "natural" and a is not None:
            a = torch.as_tensor(a).detach().float().reshape(shape)
            acc_u = (a * 0.5).clamp(min=0, max=F32_ONE_MINUS).nan_to_num(0.5)
            rej_u = torch.where(a * 1.001 + 1e-30 < 1, a * 1.001 + 1e-30, u).nan_to_num(0.5)
            if style == "accept_all":
                u = acc_u
            elif style == "reject_all":
                u = rej_u
            elif style == "alternate":
                m = torch.tensor([(i + self.k) % 2 == 0 for i in range(numel)]).reshape(shape)
                u = torch.where(m, acc_u, rej_u)
            self.counters["fault.forced_decision"] += 1
        return u.float()

    # ------------------------------------------------------------------ helpers for monitors
    def indep_names(self):
        from leaspy.variables.specs import Hyperparameter, IndepVariable

        return sorted(nm for nm, v in self.state.dag.variables.items() if isinstance(v, IndepVariable) and not isinstance(v, Hyperparameter))

    def read_indep(self) -> dict:
        s = self.state
        return {nm: (s[nm] if s.is_variable_set(nm) else None) for nm in self.indep_names()}

    def param_names(self):
        from leaspy.variables.specs import ModelParameter

        return sorted(self.state.dag.sorted_variables_by_type.get(ModelParameter, {}))

    def pop_names(self):
        from leaspy.variables.specs import PopulationLatentVariable

        return sorted(self.state.dag.sorted_variables_by_type.get(PopulationLatentVariable, {}))

    def ind_names(self):
        from leaspy.variables.specs import IndividualLatentVariable

        return sorted(self.state.dag.sorted_variables_by_type.get(IndividualLatentVariable, {}))

    def evaluator(self, indep=None):
        return RefEval(self.state.dag.variables, indep if indep is not None else self.read_indep())

    def _emit(self, name, *args):
        for m in self.monitors:
            getattr(m, name)(self, *args)

    # ------------------------------------------------------------------ run
    def algo_kwargs(self) -> dict:
        cfg = self.cfg
        kw = dict(n_iter=cfg.get("n_iter", 10), progress_bar=False, seed=cfg.get("algo_seed", cfg["gseed"] & 0xFFFF))
        for k in ("n_burn_in_iter", "n_burn_in_iter_frac", "burn_in_step_power", "annealing", "random_order_variables", "sampler_pop"):
            if k in cfg:
                kw[k] = cfg[k]
        spp = {}
        if "ahl" in cfg:
            spp["acceptation_history_length"] = cfg["ahl"]
        if spp:
            kw["sampler_pop_params"] = dict(spp)
            kw["sampler_ind_params"] = dict(spp)
        return kw

    def run(self, rerun: bool = False):
        """Run the real fit under seams + observers.  Returns the exception (or None).

        rerun=True: the *same algorithm object* is run once more on a freshly built model (documented use of
        `algorithm_factory(settings).run(model, dataset)`); the draws of the second run are addressed as run 2."""
        if rerun:
            self.cfg = dict(self.cfg, gseed=(self.cfg["gseed"] + 1) & 0xFFFFFFFF)   # (other draws, other cohort: a second, independent run)
            self._build()
            self.k = 0
            self.call_no = 0
        import leaspy.algo.algo_with_annealing as awa
        import leaspy.algo.fit.mcmc_saem as ms
        import leaspy.models.mcmc_saem_compatible as msc
        import leaspy.models.joint as mj
        import leaspy.models.mixture as mmix
        import leaspy.models.riemanian_manifold as rmm
        import leaspy.samplers.base as sbase
        from leaspy.algo import AlgorithmSettings, algorithm_factory

        w = self

        def b_iter(algo, args, kwargs):
            w.algo = algo
            w.k = algo.current_iteration
            w.call_no = 0
            w.state = args[1] if len(args) > 1 else kwargs.get("state")
            w.log.add("iter", w.k)
            w._emit("before_iteration", w.k)

        def a_iter(algo, tok, res, exc):
            if exc is None:
                w._emit("after_iteration", w.k)

        def b_m(algo, args, kwargs):
            w.algo = algo
            w.state = args[1] if len(args) > 1 else kwargs.get("state")
            w._emit("before_mstep", w.k)

        def a_m(algo, tok, res, exc):
            if exc is None:
                w._emit("after_mstep", w.k)

        def b_ss(cls, args, kwargs):
            w.depth_ss += 1

        def a_ss(cls, tok, res, exc):
            w.depth_ss -= 1
            if w.depth_ss == 0 and exc is None:
                w._emit("after_suffstats", w.k, res)

        def b_up(cls, args, kwargs):
            S = args[1] if len(args) > 1 else kwargs.get("sufficient_statistics")
            w._emit("before_update", w.k, S, kwargs.get("burn_in"))
            return (S, kwargs.get("burn_in"))

        def a_up(cls, tok, res, exc):
            if exc is None:
                w._emit("after_update", w.k, tok[0], tok[1])

        def a_temp(algo, tok, res, exc):
            if exc is None:
                w._emit("after_temperature", w.k)

        def b_c(cls, args, kwargs):
            w._emit("before_center", w.k)

        def a_c(cls, tok, res, exc):
            if exc is None:
                w._emit("after_center", w.k)

        def b_ms(smp, args, kwargs):
            w.pending_alpha = args[0] if args else kwargs.get("alpha")

        def b_sample(smp, args, kwargs):
            w.t_inv_used = kwargs.get("temperature_inv")
            return smp.name

        def a_sample(smp, tok, res, exc):
            if exc is None:
                w._emit("after_sample", w.k, tok)

        import leaspy.samplers.gibbs as sg

        cfg = self.cfg
        exc = None
        with contextlib.ExitStack() as es, warnings.catch_warnings(), contextlib.redirect_stdout(io.StringIO()) as so:
            warnings.simplefilter("ignore")
            es.enter_context(rng_seams(self, clock=self.clock))
            es.enter_context(observe(ms.TensorMcmcSaemAlgorithm, "_iteration", b_iter, a_iter))
            es.enter_context(observe(ms.TensorMcmcSaemAlgorithm, "_maximization_step", b_m, a_m))
            es.enter_context(observe(awa.AlgorithmWithAnnealingMixin, "_update_temperature", None, a_temp))
            for kls in (msc.McmcSaemCompatibleModel, rmm.RiemanianManifoldModel, mmix.LogisticMultivariateMixtureModel):
                if "compute_sufficient_statistics" in kls.__dict__:
                    es.enter_context(observe(kls, "compute_sufficient_statistics", b_ss, a_ss))
            es.enter_context(observe(msc.McmcSaemCompatibleModel, "update_parameters", b_up, a_up))
            for kls in (rmm.RiemanianManifoldModel, mj.JointModel, mmix.LogisticMultivariateMixtureModel):
                if "_center_xi_realizations" in kls.__dict__:
                    es.enter_context(observe(kls, "_center_xi_realizations", b_c, a_c))
            es.enter_context(observe(sbase.AbstractSampler, "_metropolis_step", b_ms, None))
            es.enter_context(observe(sbase.AbstractSampler, "_group_metropolis_step", b_ms, None))
            es.enter_context(observe(sg.AbstractPopulationGibbsSampler, "sample", b_sample, a_sample))
            es.enter_context(observe(sg.IndividualGibbsSampler, "sample", b_sample, a_sample))
            self.stdout = so
            try:
                if rerun and getattr(self, "algo", None) is not None:
                    algo = self.algo
                    if not self.model.is_initialized:
                        torch.manual_seed(cfg["gseed"] & 0x7FFFFFFF)
                        try:
                            self.model.initialize(self.dataset)
                        except Exception as e_init:      # (e.g. the Weibull initialisation of a joint model not converging on this cohort)
                            raise RerunSetupFailed(f"{type(e_init).__name__}: {e_init}") from None
                    self.state = self.model.state
                    self._emit("on_start")
                    algo.run(self.model, self.dataset)
                    raise _RerunDone()
                kw_algo = self.algo_kwargs()
                late = None
                if cfg.get("via_load_parameters") and cfg.get("n_burn_in_iter") is not None and not cfg.get("annealing"):
                    # documented route (docstring example of `load_parameters`): the algorithm object exists already, then the number of
                    # iterations and the explicit burn-in count are given to it
                    late = {"n_iter": kw_algo["n_iter"], "n_burn_in_iter": kw_algo["n_burn_in_iter"]}
                    kw_algo = dict(kw_algo, n_iter=100, n_burn_in_iter=None, n_burn_in_iter_frac=0.9)
                    self.counters["probe.count_given_through_load_parameters"] += 1
                settings = AlgorithmSettings("mcmc_saem", **kw_algo)
                if cfg.get("logs"):
                    settings.set_logs(**cfg["logs"])
                self.settings = settings
                algo = algorithm_factory(settings)
                if late:
                    algo.load_parameters(late)
                self.algo = algo
                self.constructed = True
                if not self.model.is_initialized:
                    torch.manual_seed(cfg["gseed"] & 0x7FFFFFFF)   # a random initialisation draws here: one integer decides it too
                    self.model.initialize(self.dataset)
                self.state = self.model.state
                self._emit("on_start")
                algo.run(self.model, self.dataset)
            except _RerunDone:
                pass
            except Exception as e:  # classified by the monitors
                exc = e
                self.log.add("fit_raised", type(e).__name__, str(e)[:80])
        self.exc = exc
        self._emit("on_end", exc)
        return exc


class _RerunDone(Exception):
    pass


class RerunSetupFailed(Exception):
    """The fresh model of a second run could not be initialised: nothing of the second run was executed."""


def gen_fit_cfg(st: Stream, *, kinds=None, max_iter=12, allow_mixture=False) -> dict:
    kinds = list(kinds or [k for k in workload.MODEL_KINDS if allow_mixture or k != "mixture"])
    kind = st.choice(kinds)
    n_iter = st.randint(2, max_iter)
    cfg = {
        "kind": kind, "n": st.choice([3, 5, 7]), "nf": 3, "max_visits": st.randint(2, 4), "missing": st.choice([0.0, 0.15, 0.3]),
        "whole_ft": st.bernoulli(0.2), "gseed": st.u64() & 0xFFFFFFFF, "n_iter": n_iter,
        "sampler_pop": st.choice(["Gibbs", "Gibbs", "FastGibbs", "Metropolis-Hastings"]),
    }
    # burn-in boundary inside the run
    mode = st.choice(["frac", "frac", "count"])
    if mode == "frac":
        cfg["n_burn_in_iter_frac"] = st.choice([0.0, 0.1, 0.29, 0.5, 0.5, 0.9, 1.0, round(st.uniform(0, 1), 3)])
    else:
        cfg["n_burn_in_iter"] = st.choice([0, 1, max(n_iter - 1, 0), n_iter, n_iter + 3, st.randint(0, n_iter)])
        cfg["n_burn_in_iter_frac"] = None
    cfg["burn_in_step_power"] = st.choice([0.8, 0.8, 1.0, 0.5000001, 0.65])
    dec = {}
    for k in range(1, n_iter + 1):
        if st.bernoulli(0.25):
            dec[str(k)] = st.choice(["accept_all", "reject_all", "alternate"])
    cfg["decisions"] = dec
    from .stepsim import _vary_shape

    _vary_shape(st, cfg)
    if st.bernoulli(0.2):
        cfg["ahl"] = st.choice([3, 5, 10])
    # tempered fits: the annealing phase may end before, at or after the burn-in boundary
    if st.bernoulli(0.3) and n_iter >= 4:
        frac = st.choice([0.3, 0.5, 0.9, 1.0])
        n_ann = int(frac * n_iter)
        n_plateau = st.randint(2, 4)
        if n_ann >= 1:
            cfg["annealing"] = {"do_annealing": True, "initial_temperature": st.choice([2, 5, 10]), "n_plateau": min(n_plateau, n_ann + 1), "n_iter_frac": frac}
    return cfg
