"""persosim — real personalisation algorithms with chain / objective recorders and a simulated job executor."""
from __future__ import annotations

import contextlib
import io
import threading
import warnings

import numpy as np
import torch

from ..core import workload
from ..core.rng import Stream
from ..core.seams import observe, patched, rng_seams
from ..ref.refeval import RefEval

F32_ONE_MINUS = float(np.nextafter(np.float32(1.0), np.float32(0.0)))


def tval(v):
    return v.weighted_value if hasattr(v, "weight") else v


class SimParallel:
    """Stand-in for joblib.Parallel: jobs run in a seeded order on `w` virtual workers (optionally as parked threads
    interleaved at every objective evaluation); results are returned in submission order."""

    def __init__(self, world, n_jobs=1, **kw):
        self.world = world
        self.n_jobs = n_jobs

    def __call__(self, jobs):
        jobs = list(jobs)
        w = self.world
        sched = w.cfg.get("schedule", "sequential")
        st = Stream(w.cfg["gseed"], "jobs")
        results = [None] * len(jobs)
        order = list(range(len(jobs)))
        if sched in ("shuffled", "threads"):
            order = st.shuffle(order)
        w.counters[f"schedule.{sched}"] += 1
        w.log.add("jobs", sched, order if len(order) < 12 else len(order))
        if sched != "threads" or len(jobs) < 2:
            for i in order:
                f, a, k = jobs[i]
                w.current_job = i
                results[i] = f(*a, **k)
            return results
        # parked real threads; the baton decides who runs; switches happen at every objective evaluation
        n_workers = max(1, min(w.cfg.get("workers", 2), len(jobs)))
        baton = threading.Condition()
        state = {"turn": None, "active": [], "pending": list(order), "done": 0, "switches": 0, "error": None}
        sw = Stream(w.cfg["gseed"], "switch")

        def pick():
            while len(state["active"]) < n_workers and state["pending"]:
                state["active"].append(state["pending"].pop(0))
            state["turn"] = sw.choice(state["active"]) if state["active"] else None

        def yield_point(i):
            with baton:
                state["switches"] += 1
                if state["switches"] > 200000:
                    return
                pick()
                baton.notify_all()
                while state["turn"] != i:
                    baton.wait(timeout=60)

        w.yield_hook = yield_point

        def runner(i):
            with baton:
                while state["turn"] != i:
                    baton.wait(timeout=60)
            try:
                f, a, k = jobs[i]
                w.thread_job[threading.get_ident()] = i
                results[i] = f(*a, **k)
            except BaseException as e:  # noqa
                state["error"] = e
            finally:
                with baton:
                    state["active"].remove(i)
                    state["done"] += 1
                    pick()
                    baton.notify_all()

        threads = [threading.Thread(target=runner, args=(i,), daemon=True) for i in range(len(jobs))]
        with baton:
            pick()
        for t in threads:
            t.start()
        for t in threads:
            t.join(timeout=120)
        w.yield_hook = None
        w.counters["probe.jobs_interleaved"] += 1 if state["switches"] > len(jobs) else 0
        w.interleaving_switches = state["switches"]
        if state["error"] is not None:
            raise state["error"]
        return results


def sim_delayed(f):
    def wrap(*a, **k):
        return (f, a, k)

    return wrap


class PersoWorld:
    """One real personalisation call under seams with recorders."""

    def __init__(self, cfg, model, dataset_or_df, log, counters):
        self.cfg = cfg
        self.model = model
        self.data = dataset_or_df
        self.log = log
        self.counters = counters
        self.k = 0
        self.call_no = 0
        self.pending_alpha = None
        self.state = None
        self.chain = []        # per iteration: {"k":..., "values": {var: tensor}, "attach": tensor(n), "regul": tensor(n), "burn_in": bool}
        self.evals = {}        # job index -> list of (x, f)
        self.state_job = {}    # id(state) -> job index
        self.current_job = None
        self.thread_job = {}
        self.yield_hook = None
        self.algo = None
        self.interleaving_switches = 0
        self.keep_alive = []

    # ---- seams
    def on_shuffle(self, lst, where):
        st = Stream(self.cfg["gseed"], "shuffle", self.k, where, self.call_no)
        self.call_no += 1
        lst[:] = st.shuffle(lst)

    def on_randn(self, shape, kw):
        numel = int(np.prod(shape)) if len(shape) else 1
        st = Stream(self.cfg["gseed"], "z", self.k, self.call_no)
        self.call_no += 1
        return torch.tensor(st.normals(numel), dtype=torch.float32).reshape(shape)

    def on_rand(self, shape, kw):
        numel = int(np.prod(shape)) if len(shape) else 1
        st = Stream(self.cfg["gseed"], "u", self.k, self.call_no)
        self.call_no += 1
        u = torch.tensor([st.random() for _ in range(numel)], dtype=torch.float32).reshape(shape).clamp(max=F32_ONE_MINUS)
        style = (self.cfg.get("decisions") or {}).get(str(self.k), "natural")
        a = self.pending_alpha
        self.pending_alpha = None
        if style != "natural" and a is not None:
            a = torch.as_tensor(a).detach().float().reshape(shape)
            acc_u = (a * 0.5).clamp(min=0, max=F32_ONE_MINUS).nan_to_num(0.5)
            rej_u = torch.where(a * 1.001 + 1e-30 < 1, a * 1.001 + 1e-30, u).nan_to_num(0.5)
            if style == "accept_all":
                u = acc_u
            elif style == "reject_all":
                u = rej_u
            elif style == "alternate":
                m = torch.tensor([(i + self.k) % 2 == 0 for i in range(numel)]).reshape(shape)
                u = torch.where(m, acc_u, rej_u)
            self.counters["fault.forced_decision"] += 1
        return u.float()

    # ---- run
    def run(self, algo_name, **kw):
        import leaspy.algo.algo_with_annealing as awa
        import leaspy.algo.personalize.scipy_minimize as sm
        import leaspy.samplers.base as sbase
        import leaspy.samplers.gibbs as sg

        w = self

        def b_ms(smp, args, kwargs):
            w.pending_alpha = args[0] if args else kwargs.get("alpha")

        def b_sample(smp, args, kwargs):
            w.state = args[0] if args else kwargs.get("state")

        def a_temp(algo, tok, res, exc):
            # end of one personalisation iteration (after the draws were possibly recorded by the algorithm)
            if exc is not None or w.state is None or not hasattr(algo, "samplers") or algo.samplers is None:
                return
            w.algo = algo
            k = algo.current_iteration
            s = w.state
            from leaspy.variables.specs import Hyperparameter, IndepVariable, IndividualLatentVariable

            names = sorted(s.dag.sorted_variables_by_type.get(IndividualLatentVariable, {}))
            indep = {nm: (s[nm] if s.is_variable_set(nm) else None) for nm, v in s.dag.variables.items()
                     if isinstance(v, IndepVariable) and not isinstance(v, Hyperparameter)}
            ev = RefEval(s.dag.variables, indep)
            att = tval(ev.value("nll_attach_ind")).double().clone()
            reg = sum(tval(ev.value(f"nll_regul_{nm}_ind")).double() for nm in names)
            w.chain.append({"k": k, "values": {nm: s[nm].clone() for nm in names}, "attach": att, "regul": reg, "burn_in": algo._is_burn_in()})
            w.k = k + 1
            w.call_no = 0

        def b_obj(algo, args, kwargs):
            x, state = args[0], args[1]
            if w.yield_hook is not None:
                j = w.thread_job.get(threading.get_ident())
                if j is not None:
                    w.yield_hook(j)
            return (np.array(x, dtype=float).copy(), state)

        def a_obj(algo, tok, res, exc):
            if exc is None:
                x, state = tok
                j = w.state_job.get(id(state), "?")
                w.evals.setdefault(j, []).append((x, float(res)))

        def b_pat(algo, args, kwargs):
            state = args[0] if args else kwargs.get("state")
            w.state_job[id(state)] = kwargs.get("patient_id")
            w.keep_alive.append(state)

        exc = None
        res = None
        with contextlib.ExitStack() as es, warnings.catch_warnings(), contextlib.redirect_stdout(io.StringIO()):
            warnings.simplefilter("ignore")
            es.enter_context(rng_seams(self))
            es.enter_context(observe(sbase.AbstractSampler, "_metropolis_step", b_ms, None))
            es.enter_context(observe(sbase.AbstractSampler, "_group_metropolis_step", b_ms, None))
            es.enter_context(observe(sg.IndividualGibbsSampler, "sample", b_sample, None))
            es.enter_context(observe(awa.AlgorithmWithAnnealingMixin, "_update_temperature", None, a_temp))
            es.enter_context(observe(sm.ScipyMinimizeAlgorithm, "obj_no_jac", b_obj, a_obj))
            es.enter_context(observe(sm.ScipyMinimizeAlgorithm, "_get_individual_parameters_patient", b_pat, None))
            es.enter_context(patched(sm, "Parallel", lambda **k: SimParallel(w, **k)))
            es.enter_context(patched(sm, "delayed", sim_delayed))
            self.k = 1
            try:
                res = self.model.personalize(self.data, algo_name, **kw)
            except Exception as e:
                exc = e
        return res, exc
