"""C11 — seeded runs are reproducible and independent of logging and process history (procsim).

Each plan runs two fresh interpreters: the reference (no history, no logging, PYTHONHASHSEED=0) and the
history interpreter (generated process history, logging configuration, clock jumps, scheduled hash seed).
"""
from __future__ import annotations

import copy
import hashlib
import json
import os
import shutil
import subprocess
import sys
import tempfile

from ..core import workload
from ..core.driver import EventLog, ddmin_list, new_outcome, violation
from ..core.rng import SimRng

PROPERTY = "C11"
TIERS = {
    "quick": {"runs": 96, "budget_s": 110, "chunk": 2},
    "thorough": {"runs": 4000, "budget_s": 900, "chunk": 4},
}
REQUIRED_PROBES = {
    "quick": ["probe.logging_on", "probe.history_before_call", "probe.other_hash_seed", "probe.digest_compared"],
    "thorough": ["probe.logging_on", "probe.history_before_call", "probe.other_hash_seed", "probe.digest_compared", "probe.clock_jump", "probe.plots_on",
                 "probe.print_only_logging", "probe.call.fit", "probe.call.scipy_minimize", "probe.call.mean_posterior", "probe.call.mode_posterior", "probe.call.simulate", "probe.annealing_on"],
}
DESCRIBE = {
    "rule": "one case = one measured seeded call (fit / personalize x3 / simulate) on a generated cohort, executed in a fresh interpreter (a) alone, without logging, PYTHONHASHSEED=0 and "
            "(b) after a generated process history (generator burn, re-seeding, an earlier fit or personalisation of another model kind, open figures, default-dtype round trip), under a generated "
            "logging configuration (print / save / plot / patient-plot periodicities, path or not, overwrite, sourcewise), with wall-clock jumps and another PYTHONHASHSEED, then repeated once more "
            "without logging; all digests must be equal and every accepted logging configuration must complete; distinct = digest of (call, model kind, history op kinds, logging configuration, hash seed)",
    "distinct_measure": "digest of (call, model kind, history-op kinds, logging configuration, hash seed)",
    "real": ["BaseAlgorithm._initialize_seed / run", "the three global generators (recorded mode)", "FitOutputManager (console, CSV, convergence and patient plots; matplotlib Agg)", "State.save", "all algorithms"],
    "stub": ["wall clock as seen from algo.base and fit_output_manager (virtual, with planned jumps)", "stdout captured", "files in the run's private scratch directory (real file system)"],
    "assumptions": ["'when repeated' includes 'in another interpreter': the hash seed is a source of nondeterminism the user does not control (DESIGN.md §5 C11)",
                    "logging configurations refused by set_logs with LeaspyAlgoInputError are legitimate refusals", "no disk fault is injected"],
}
KINDS = ["logistic_diag", "logistic_scalar", "logistic_uni", "linear_diag", "shared_speed", "joint_multi", "joint_uni", "logistic_binary"]
CALLS = ["fit", "fit", "fit", "scipy_minimize", "mean_posterior", "mode_posterior", "simulate"]


def make_plan(seed: int, tier: str) -> dict:
    rng = SimRng(seed)
    st = rng.stream("plan")
    call = st.choice(CALLS)
    kind = st.choice(["logistic_diag", "logistic_scalar"]) if call == "simulate" else st.choice(KINDS + (["mixture", "mixture", "joint_ev2"] if call == "fit" else []))
    info = workload.kind_info(kind)
    nf = 1 if info["uni"] else 3
    plan = {"seed": seed, "tier": tier, "engine": "procsim_c11", "call": call, "kind": kind, "nf": nf, "gseed": st.u64() & 0xFFFFFFFF,
            "aseed": st.randint(0, 99), "n_iter": st.randint(3, 8), "hashseed": st.choice([0, 1, 2, 7, 42, 123, 999, 31337]), "history": [], "logs": None, "clock_jumps": []}
    if call in ("fit", "mean_posterior", "mode_posterior") and st.bernoulli(0.35):
        plan["annealing"] = {"do_annealing": True, "initial_temperature": st.choice([2, 5, 10]), "n_plateau": st.randint(2, 3), "n_iter_frac": st.choice([0.5, 0.9])}
        plan["n_iter"] = max(plan["n_iter"], 6)
    if call in ("fit", "mean_posterior", "mode_posterior") and st.bernoulli(0.25):
        # the measured call is made with an AlgorithmSettings object that already served an earlier seeded call with another n_iter
        # (part of "whatever was fitted earlier in the process"); kept apart from logging configurations
        plan["reuse_settings"] = {"earlier_n_iter": st.choice([2, 3, 12, 20])}
        if not plan.get("annealing") and st.bernoulli(0.6):
            # (nested settings - annealing, sampler parameters - are what a reused object can carry from one call to the next)
            plan["annealing"] = {"do_annealing": True, "initial_temperature": st.choice([2, 5, 10]), "n_plateau": st.randint(2, 3), "n_iter_frac": st.choice([0.5, 0.9])}
            plan["n_iter"] = max(plan["n_iter"], 6)
    if call == "fit" and workload.kind_info(kind)["family"] != "linear" and st.bernoulli(0.25):
        plan["init_random"] = True   # documented model option: the initial parameters are drawn (logistic family)
    for _ in range(st.randint(0, 3)):
        k = st.choice(["burn_rng", "burn_rng", "seed_other", "earlier_fit", "earlier_personalize", "open_figures", "default_dtype_roundtrip"])
        op = {"op": k}
        if k == "burn_rng":
            op["n"] = st.randint(1, 50)
        elif k == "seed_other":
            op["s"] = st.randint(0, 1000)
        elif k == "earlier_fit":
            op.update(kind=st.choice(["linear_diag", "logistic_diag", "shared_speed", "mixture"]), n_iter=st.randint(2, 4), s=st.randint(0, 9))
        elif k == "earlier_personalize":
            op.update(kind=st.choice(["logistic_diag", "linear_diag"]), algo=st.choice(["scipy_minimize", "mean_posterior"]), s=st.randint(0, 9))
        elif k == "open_figures":
            op["n"] = st.randint(1, 3)
        plan["history"].append(op)
    if call == "fit" and st.bernoulli(0.8):
        logs = {}
        mode = st.choice(["print_only", "save", "save_plot", "all", "patients", "path_only"])
        if mode in ("print_only", "all"):
            logs["print_periodicity"] = st.choice([1, 2, 3, 5])
        if mode in ("save", "save_plot", "all"):
            logs["save_periodicity"] = st.choice([1, 2, 3])
        if mode in ("save_plot", "all"):
            logs["plot_periodicity"] = logs["save_periodicity"] * st.choice([1, 2])
        if mode in ("patients", "all"):
            logs["plot_patient_periodicity"] = st.choice([1, 2, 3])
            logs["nb_of_patients_to_plot"] = st.choice([1, 3, 5])
        if mode != "print_only" or st.bernoulli(0.3):
            logs["path"] = "logs_" + str(st.randint(0, 9))
        if st.bernoulli(0.3):
            logs["overwrite_logs_folder"] = True
        if st.bernoulli(0.3) and "plot_periodicity" in logs:
            logs["plot_sourcewise"] = True
        plan["logs"] = logs
        for _ in range(st.randint(0, 2)):
            plan["clock_jumps"].append([st.randint(1, 12), st.choice([3600.0, -3600.0, 1e7, -86400.0 * 365])])
    return plan


def _child(plan, mode, hashseed, scratch, timeout=200):
    env = dict(os.environ)
    env["PYTHONHASHSEED"] = str(hashseed)
    env["MPLBACKEND"] = "Agg"
    p = dict(plan)
    p["scratch"] = scratch
    pf = os.path.join(scratch, f"plan_{mode}.json")
    with open(pf, "w") as f:
        json.dump(p, f)
    r = subprocess.run([sys.executable, "-m", "leasim.engines.procsim_child", pf, mode], env=env, capture_output=True, text=True, timeout=timeout, cwd=scratch)
    for line in r.stdout.splitlines():
        if line.startswith("PROCSIM-RESULT "):
            return json.loads(line[len("PROCSIM-RESULT "):]), None
    return None, (r.stderr or r.stdout)[-1500:]


def run_plan(plan: dict) -> dict:
    out = new_outcome(plan)
    log = EventLog()
    C = out["counters"]
    base = os.environ.get("LEASIM_SCRATCH") or tempfile.gettempdir()
    scratch = tempfile.mkdtemp(prefix="c11-", dir=base)
    try:
        ref, err = _child(plan, "reference", 0, scratch)
        if ref is None:
            raise RuntimeError("reference child failed: " + str(err))
        hist, err = _child(plan, "history", plan["hashseed"], scratch)
        if hist is None:
            raise RuntimeError("history child failed: " + str(err))
    finally:
        shutil.rmtree(scratch, ignore_errors=True)
    call, kind = plan["call"], plan["kind"]
    where = f"call={call} kind={kind} history={[o['op'] for o in plan['history']]} logs={plan['logs']} hashseed={plan['hashseed']} clock_jumps={plan['clock_jumps']}"
    C[f"probe.call.{call}"] += 1
    if plan["logs"]:
        C["probe.logging_on"] += 1
        if set(plan["logs"]) <= {"print_periodicity", "overwrite_logs_folder"}:
            C["probe.print_only_logging"] += 1
        if any(k in plan["logs"] for k in ("plot_periodicity", "plot_patient_periodicity")):
            C["probe.plots_on"] += 1
    for op_ in plan["history"]:
        C["fault.history." + op_["op"]] += 1
    if plan["logs"]:
        C["fault.logging_configuration"] += 1
    for _ in plan["clock_jumps"]:
        C["fault.clock_jump"] += 1
    if plan["hashseed"] != 0:
        C["fault.other_hash_seed"] += 1
    if plan["history"]:
        C["probe.history_before_call"] += 1
    if plan["hashseed"] != 0:
        C["probe.other_hash_seed"] += 1
    if plan["clock_jumps"]:
        C["probe.clock_jump"] += 1
    if plan.get("annealing"):
        C["probe.annealing_on"] += 1
    if plan.get("init_random"):
        C["probe.random_initialization"] += 1
    if plan.get("reuse_settings") and not (plan["call"] == "fit" and plan["logs"]):
        C["probe.settings_object_used_before"] += 1
    if ref["errors"]:
        # the measured call itself fails without any history or logging: not attributable to C11
        out["discarded"] = f"reference_raised:{ref['errors'][0][1]}"
        out["digest"] = "ref-failed"
        return _finish(out, plan, log)
    dref = ref["digests"][0][1]
    log.add("reference", dref)
    digs = dict((a, b) for a, b in hist["digests"])
    for label, typ, msg, where_exc in hist["errors"]:
        if typ == "LeaspyAlgoInputError" and label == "with_history_and_logging":
            C["abort.logging_configuration_refused"] += 1
            continue
        logkind = _logkind(plan) if label == "with_history_and_logging" else "none"
        kind_tag = ":mixture_model" if kind == "mixture" else ""   # (the experimental mixture model has a recorded finding of its own)
        violation(out, "completes", f"run_aborted:{label}:{typ}:{where_exc}:{logkind}{kind_tag}", f"{where}: {typ}: {msg}")
    ns_kind = "three_individual_variables" if workload.kind_info(kind)["sources"] else "two_individual_variables"
    for label, d in digs.items():
        C["probe.digest_compared"] += 1
        log.add(label, d)
        if d != dref:
            cause = []
            if plan["hashseed"] != 0:
                cause.append("other_hash_seed")
            if plan["history"]:
                cause.append("history")
            if label == "with_history_and_logging" and plan["logs"]:
                cause.append("logging")
            if plan.get("init_random"):
                cause.append("random_initialization")
            if plan.get("reuse_settings"):
                cause.append("settings_object_used_before")
            violation(out, "reproducible", f"result_differs_from_history_free_run:{call}:{label}:{'+'.join(cause) or 'nothing'}:{ns_kind}",
                      f"{where}: {label}: {d} vs reference {dref}")
    if len(set(digs.values())) > 1 and all(d == dref or True for d in digs.values()) and "with_history_and_logging" in digs and "again_without_logging" in digs \
            and digs["with_history_and_logging"] != digs["again_without_logging"] and not out["violations"]:
        violation(out, "reproducible", f"repeat_in_same_interpreter_differs:{call}", where)
    return _finish(out, plan, log)


def _logkind(plan):
    logs = plan.get("logs") or {}
    parts = [k.replace("_periodicity", "") for k in sorted(logs) if k.endswith("periodicity")]
    return "+".join(parts) + (":with_path" if "path" in logs else ":no_path")


def _finish(out, plan, log):
    key = (plan["call"], plan["kind"], tuple(o["op"] for o in plan["history"]), json.dumps(plan["logs"], sort_keys=True), plan["hashseed"], len(plan["clock_jumps"]))
    out["keys"].add("run:" + hashlib.sha1(repr(key).encode()).hexdigest()[:16])
    out["nontrivial"] = out["counters"]["probe.digest_compared"] > 0 or bool(out["violations"])
    out["digest"] = log.digest()
    out["sample"] = {k: v for k, v in plan.items() if k not in ("seed", "tier", "engine", "gseed")}
    return out


def shrink(plan: dict):
    for cand in ddmin_list(plan["history"]):
        p = copy.deepcopy(plan)
        p["history"] = cand
        yield p
    if plan["history"]:
        p = copy.deepcopy(plan)
        p["history"] = []
        yield p
    if plan["hashseed"] != 0:
        p = copy.deepcopy(plan)
        p["hashseed"] = 0
        yield p
    if plan["clock_jumps"]:
        p = copy.deepcopy(plan)
        p["clock_jumps"] = []
        yield p
    if plan["logs"]:
        p = copy.deepcopy(plan)
        p["logs"] = None
        yield p
        for k in list(plan["logs"]):
            if k in ("save_periodicity",) and "plot_periodicity" in plan["logs"]:
                continue
            p = copy.deepcopy(plan)
            del p["logs"][k]
            if p["logs"]:
                yield p
    if plan["n_iter"] > 2:
        p = copy.deepcopy(plan)
        p["n_iter"] = 2
        yield p
