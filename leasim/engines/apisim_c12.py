"""C12 — a fitted model is self-consistent and survives save/load unchanged.

Sentence 1 is an end-of-run invariant of simulated fits (fitsim end hook); sentence 2 is a fault-free
round trip (save -> load -> save), labelled as such.
"""
from __future__ import annotations

import copy
import hashlib
import json
import os
import tempfile

import numpy as np
import torch

from ..core import workload
from ..core.driver import EventLog, new_outcome, violation
from ..core.rng import SimRng, Stream
from ..ref import refmath as rm
from . import apisim_common as ac
from . import fitsim

PROPERTY = "C12"
TIERS = {
    "quick": {"runs": 2000, "budget_s": 110, "chunk": 6},
    "thorough": {"runs": 16000, "budget_s": 900, "chunk": 12},
}
REQUIRED_PROBES = {
    "quick": ["probe.fit_end_checked", "probe.roundtrip_checked", "probe.instance_name_differs_from_kind"],
    "thorough": ["probe.fit_end_checked", "probe.roundtrip_checked", "probe.instance_name_differs_from_kind", "probe.fit_ended_in_burn_in", "probe.fit_with_annealing",
                 "probe.single_iteration_fit", "probe.unicode_features", "probe.numeric_looking_features", "probe.handwritten_parameters", "probe.fitted_parameters_roundtrip", "probe.parameters_updated_in_place"],
}
DESCRIBE = {
    "rule": "fit-end plans: one whole real fit (1-20 iterations; ending inside burn-in, with annealing, single iteration...) whose final model is checked: population variables == "
            "prior modes under the final parameters (bit-equal), derived quantities (v0, g, metric, mixing matrix, trajectories) re-derived in float64 from the *saved* parameters; "
            "round-trip plans: save -> load -> save of a fitted or hand-written model with generated instance name, feature names (unicode, numeric-looking), dimension, sources, noise structure; "
            "distinct = configuration digest; non-trivial = every completed case (each compares a different model)",
    "distinct_measure": "digest of (type, model kind, dimension, naming, fit configuration)",
    "real": ["TensorMcmcSaemAlgorithm._run end of fit (model.state replacement)", "BaseModel.save / to_dict / load, ModelSettings, model_factory, StatefulModel.load_parameters", "estimate / compute_individual_trajectory"],
    "stub": ["randn / rand / shuffle served during fits", "files live in the run's private scratch directory (real file system; no fault injected: nothing is promised under disk faults)"],
    "assumptions": ["parameters compared at float32 precision (values pass through float32 tensors), trajectories within 1e-6", "mixture model not covered"],
}
KINDS = [k for k in workload.MODEL_KINDS if k != "mixture"]


def make_plan(seed: int, tier: str) -> dict:
    rng = SimRng(seed)
    st = rng.stream("plan")
    if st.bernoulli(0.45):
        cfg = fitsim.gen_fit_cfg(rng.stream("world"), max_iter=8 if tier == "quick" else 20)
        cfg["n_iter"] = st.choice([1, 1, 2, 3, cfg["n_iter"]])
        cfg["decisions"] = {k: v for k, v in cfg["decisions"].items() if int(k) <= cfg["n_iter"]}
        cfg.pop("annealing", None)   # (n_iter was re-drawn: a tempered configuration is drawn afresh below so that it stays admissible)
        if st.bernoulli(0.3) and cfg["n_iter"] >= 4:
            cfg["annealing"] = {"do_annealing": True, "initial_temperature": st.choice([2, 10, 3.7]), "n_plateau": st.randint(2, 3),
                                "n_iter_frac": st.choice([0.5, 0.9])}
        return {"seed": seed, "tier": tier, "engine": "apisim_c12", "type": "fit_end", "world": cfg}
    kind = st.choice(KINDS)
    info = workload.kind_info(kind)
    nf = 1 if info["uni"] else st.choice([2, 3, 4])
    pool = st.choice(ac.FEATURE_NAME_POOLS)
    return {"seed": seed, "tier": tier, "engine": "apisim_c12", "type": "roundtrip", "kind": kind, "nf": nf,
            "features": pool[:nf], "name": (st.choice(ac.INSTANCE_NAMES) if st.bernoulli(0.3) else None), "fitted": st.bernoulli(0.3), "mseed": st.u64() & 0xFFFFFFFF,
            "source_dimension": st.randint(1, 3), "update_seed": (st.randint(1, 10 ** 6) if st.bernoulli(0.3) else None)}


def wv(t):
    return t.weighted_value if hasattr(t, "weight") else t


# =========================================================================== sentence 1
def check_fit_end(model, kind, out, C, where):
    from leaspy.variables.specs import PopulationLatentVariable

    s = model.state
    info = workload.kind_info(kind)
    C["probe.fit_end_checked"] += 1
    pops = sorted(s.dag.sorted_variables_by_type.get(PopulationLatentVariable, {}))
    for x in pops:
        mean = s[f"{x}_mean"]
        val = s[x]
        exp = torch.broadcast_tensors(mean, s[f"{x}_std"])[0]
        if val.shape != exp.shape or not torch.equal(val, exp):
            violation(out, "population_at_prior_mode", f"population_variable_not_at_prior_mode:{x if x in ('betas',) else 'pop'}",
                      f"{where}: {x} = {val.reshape(-1)[:4].tolist()} but {x}_mean = {mean.reshape(-1)[:4].tolist()}")
    # derived quantities re-derived in float64 from the parameters that get saved
    d = model.to_dict()
    params = d["parameters"]
    ref = rm.info_for_kind(info)
    v = ac.pop_values_from_params(kind, params)
    try:
        geo = ref.geometry(v)
    except Exception as e:
        C["skip.geometry:" + type(e).__name__] += 1
        return
    for name in ("v0", "g", "metric", "mixing_matrix"):
        if name in geo and name in s.dag:
            got = rm.f64(s[name])
            if got.shape != np.asarray(geo[name]).shape or not np.allclose(got, geo[name], rtol=2e-4, atol=1e-6):
                violation(out, "derived_from_saved_parameters", f"{name}_disagrees_with_saved_parameters:{info['family']}",
                          f"{where}: state {got.reshape(-1)[:4].tolist()} vs from parameters {np.asarray(geo[name]).reshape(-1)[:4].tolist()}")
    if "mixing_matrix" in params and "mixing_matrix" in geo:
        if not np.allclose(np.asarray(params["mixing_matrix"]), geo["mixing_matrix"], rtol=2e-4, atol=1e-6):
            violation(out, "derived_from_saved_parameters", f"saved_mixing_matrix_disagrees:{info['family']}", where)
    # trajectories
    st = Stream(17, "traj", kind)
    ns = model.source_dimension or 0
    tau_m = float(np.asarray(params["tau_mean"]).reshape(-1)[0])
    ipd = {"xi": 0.3, "tau": tau_m + 2.0}
    if ns:
        ipd["sources"] = [0.5, -1.0, 0.25][:ns]
    ages = [tau_m - 12, tau_m - 1.5, tau_m + 3, tau_m + 20]
    with ac.quiet():
        got = model.compute_individual_trajectory(ages, ipd)[0].numpy()
    nfeat = len(model.features)
    exp = ac.ref_trajectory(kind, params, ages, ipd["xi"], ipd["tau"], ipd.get("sources"))
    if not np.allclose(got[:, :nfeat], exp, rtol=1e-4, atol=2e-5):
        violation(out, "derived_from_saved_parameters", f"trajectory_disagrees_with_saved_parameters:{info['family']}",
                  f"{where}: {got[:2, :nfeat].tolist()} vs {exp[:2].tolist()}")


class EndMonitor(fitsim.Monitor):
    def __init__(self):
        self.last_k = 0
        self.burn_in_end = None

    def after_iteration(self, w, k):
        self.last_k = k
        self.burn_in_end = w.algo._is_burn_in()


# =========================================================================== sentence 2
def _params_equal(a: dict, b: dict):
    """(signature, message) of the first difference, or None."""
    if set(a) != set(b):
        return ("keys", f"keys differ: {sorted(set(a) ^ set(b))}")
    for k in sorted(a):
        x, y = np.asarray(a[k], dtype=np.float64), np.asarray(b[k], dtype=np.float64)
        if x.shape != y.shape:
            return (f"shape_of_{k}", f"{k}: shape {x.shape} vs {y.shape}")
        if not np.allclose(x.astype(np.float32), y.astype(np.float32), rtol=0, atol=0, equal_nan=True) and not np.allclose(x, y, rtol=1.2e-7, atol=1e-38):
            return (f"value_of_{k}", f"{k}: {x.reshape(-1)[:4].tolist()} vs {y.reshape(-1)[:4].tolist()}")
    return None


def run_roundtrip(plan, out, C, log):
    from leaspy.models import BaseModel

    kind, nf = plan["kind"], plan["nf"]
    info = workload.kind_info(kind)
    st = Stream(plan["mseed"], "model")
    name = plan["name"]
    feats = plan["features"]
    if name and name != info["family"]:
        C["probe.instance_name_differs_from_kind"] += 1
    if any(ord(c) > 127 for f in feats for c in str(f)):
        C["probe.unicode_features"] += 1
    if feats[0] in ("1", "0.5"):
        C["probe.numeric_looking_features"] += 1
    if any(not isinstance(f, str) or f != f.strip() for f in feats):
        C["probe.feature_names_not_clean_strings"] += 1
    scratch = os.environ.get("LEASIM_SCRATCH") or tempfile.gettempdir()
    d = tempfile.mkdtemp(prefix="c12-", dir=scratch)
    try:
        try:
            with ac.quiet():
                if plan["fitted"]:
                    df = workload.make_cohort(st, kind=kind, n=5, n_features=nf, max_visits=3)
                    df = df.rename(columns={f"Y{j}": feats[j] for j in range(len(feats))})
                    data = workload.to_data(df, kind)
                    model = workload.make_model(kind, nf, source_dimension=plan["source_dimension"], name=name)
                    model.fit(data, "mcmc_saem", n_iter=3, seed=2, progress_bar=False)
                    C["probe.fitted_parameters_roundtrip"] += 1
                else:
                    settings = ac.handwritten_settings(st, kind, nf, features=feats, source_dimension=plan["source_dimension"])
                    base = BaseModel.load(settings)
                    # same model under the requested instance name
                    model = workload.make_model(kind, nf, source_dimension=plan["source_dimension"], name=name)
                    model.features = list(feats)
                    model.load_parameters(settings["parameters"])
                    model._is_initialized = True
                    C["probe.handwritten_parameters"] += 1
        except Exception as e:
            out["discarded"] = f"setup:{type(e).__name__}"
            return
        if plan.get("update_seed"):
            # parameters written by hand into the live object (load_parameters: "instantiate or update"), then the same round trip
            upd = ac.handwritten_settings(Stream(plan["update_seed"], "update"), kind, nf, features=feats, source_dimension=plan["source_dimension"])
            try:
                with ac.quiet():
                    model.load_parameters(ac.copy_settings(upd)["parameters"])
                C["probe.parameters_updated_in_place"] += 1
            except Exception as e:
                violation(out, "roundtrip_completes", f"load_parameters_raised:{type(e).__name__}", f"update: {e}")
                return
            check_fit_end(model, kind, out, C, f"after load_parameters kind={kind}")
            if out["violations"]:
                return
        p1, p2 = os.path.join(d, "m1.json"), os.path.join(d, "m2.json")
        where = f"kind={kind} nf={nf} name={name!r} features={feats} fitted={plan['fitted']}"
        try:
            with ac.quiet():
                model.save(p1)
        except Exception as e:
            violation(out, "roundtrip_completes", f"save_raised:{type(e).__name__}", f"{where}: {e}")
            return
        try:
            with ac.quiet():
                loaded = BaseModel.load(p1)
        except Exception as e:
            cls = "instance_name_differs_from_kind" if (name and name.lower() != info["family"]) else "other"
            violation(out, "roundtrip_completes", f"load_raised:{type(e).__name__}:{cls}", f"{where}: {type(e).__name__}: {e}")
            return
        C["probe.roundtrip_checked"] += 1
        log.add("roundtrip", kind, nf)
        d1 = model.to_dict()
        d2 = loaded.to_dict()
        msg = _params_equal(d1["parameters"], d2["parameters"])
        if msg:
            violation(out, "roundtrip_parameters", f"parameters_changed:{msg[0]}", f"{where}: {msg[1]}")
        msg = _params_equal(d1.get("hyperparameters", {}), d2.get("hyperparameters", {}))
        if msg:
            violation(out, "roundtrip_parameters", f"hyperparameters_changed:{msg[0]}", f"{where}: {msg[1]}")
        for key in ("name", "features", "dimension", "source_dimension", "obs_models"):
            if d1.get(key) != d2.get(key):
                cls = "case_only" if key == "name" and str(d1.get(key)).lower() == str(d2.get(key)).lower() else "other"
                violation(out, "roundtrip_parameters", f"{key}_changed:{cls}", f"{where}: {d1.get(key)!r} -> {d2.get(key)!r}")
        # trajectories on an age grid
        tau_m = float(np.asarray(d1["parameters"]["tau_mean"]).reshape(-1)[0])
        ns = model.source_dimension or 0
        ipd = {"xi": -0.2, "tau": tau_m + 1.0}
        if ns:
            ipd["sources"] = [0.7, -0.4, 0.1][:ns]
        ages = [tau_m - 15, tau_m - 2, tau_m, tau_m + 4, tau_m + 25]
        with ac.quiet():
            t1 = model.compute_individual_trajectory(ages, ipd).numpy()
            t2 = loaded.compute_individual_trajectory(ages, ipd).numpy()
        # (a degenerate fitted event shape, rho = exp(75), gives NaN incidences in both models: same place = same trajectory)
        if t1.shape != t2.shape or not np.allclose(t1, t2, rtol=0, atol=1e-6, equal_nan=True):
            violation(out, "roundtrip_trajectories", f"trajectories_changed:{info['family']}", f"{where}: max diff {float(np.nanmax(np.abs(t1 - t2))) if t1.shape == t2.shape else 'shape'}; "
                      f"NaN places equal: {bool(t1.shape == t2.shape and (np.isnan(t1) == np.isnan(t2)).all())}")
        with ac.quiet():
            loaded.save(p2)
        b1, b2 = open(p1, "rb").read(), open(p2, "rb").read()
        if b1 != b2:
            j1, j2 = json.loads(b1), json.loads(b2)

            def entry_class(x, y):
                try:
                    ax, ay = np.asarray(x, dtype=np.float64), np.asarray(y, dtype=np.float64)
                except Exception:
                    return "case_only" if str(x).lower() == str(y).lower() else "value"
                if ax.size != ay.size:
                    return "size"
                parts = []
                if ax.shape != ay.shape:
                    parts.append("shape_only")
                fx, fy = ax.reshape(-1), ay.reshape(-1)
                if not np.array_equal(fx, fy):
                    parts.append("float32_rounding_of_float64_value" if np.array_equal(fx.astype(np.float32), fy.astype(np.float32)) else "value")
                return "+".join(parts) or "representation"

            for k in sorted(set(j1) | set(j2)):
                if j1.get(k) != j2.get(k):
                    if isinstance(j1.get(k), dict) and isinstance(j2.get(k), dict):
                        for kk in sorted(set(j1[k]) | set(j2[k])):
                            if j1[k].get(kk) != j2[k].get(kk):
                                violation(out, "roundtrip_file", f"second_file_differs:{k}.{kk}:{entry_class(j1[k].get(kk), j2[k].get(kk))}",
                                          f"{where}: {k}.{kk}: {j1[k].get(kk)!r} -> {j2[k].get(kk)!r}")
                    else:
                        violation(out, "roundtrip_file", f"second_file_differs:{k}:{entry_class(j1.get(k), j2.get(k))}", f"{where}: {k}: {j1.get(k)!r} -> {j2.get(k)!r}")
    finally:
        import shutil

        shutil.rmtree(d, ignore_errors=True)


def run_plan(plan: dict) -> dict:
    from leaspy.exceptions import LeaspyConvergenceError

    out = new_outcome(plan)
    log = EventLog()
    torch.set_num_threads(1)
    C = out["counters"]
    C["type." + plan["type"]] += 1
    if plan["type"] == "fit_end":
        cfg = plan["world"]
        mon = EndMonitor()
        try:
            world = fitsim.FitWorld(cfg, log, C, [mon])
        except Exception as e:
            out["discarded"] = f"setup:{type(e).__name__}"
            out["digest"] = "setup-failed"
            return out
        exc = world.run()
        if isinstance(exc, LeaspyConvergenceError):
            C["abort.convergence_error"] += 1
        elif exc is not None:
            out["discarded"] = f"fit_raised:{type(exc).__name__}"
        else:
            if mon.burn_in_end:
                C["probe.fit_ended_in_burn_in"] += 1
            if cfg.get("annealing", {}).get("do_annealing"):
                C["probe.fit_with_annealing"] += 1
            if cfg["n_iter"] == 1:
                C["probe.single_iteration_fit"] += 1
            check_fit_end(world.model, cfg["kind"], out, C, f"kind={cfg['kind']} n_iter={cfg['n_iter']}")
        C[f"model.{cfg['kind']}"] += 1
        key = ("fit_end", cfg["kind"], cfg["n"], cfg["n_iter"], cfg.get("n_burn_in_iter"), cfg.get("n_burn_in_iter_frac"), str(cfg.get("annealing")), cfg["sampler_pop"])
        out["sample"] = {"type": "fit_end", "world": {k: v for k, v in cfg.items() if k != "gseed"}}
    else:
        run_roundtrip(plan, out, C, log)
        C[f"model.{plan['kind']}"] += 1
        key = ("roundtrip", plan["kind"], plan["nf"], plan["name"], tuple(plan["features"]), plan["fitted"], plan["source_dimension"])
        out["sample"] = {k: v for k, v in plan.items() if k not in ("mseed", "seed", "tier", "engine")}
    out["keys"].add("run:" + hashlib.sha1(repr(key).encode()).hexdigest()[:16])
    out["nontrivial"] = C["probe.fit_end_checked"] + C["probe.roundtrip_checked"] > 0 or bool(out["violations"])
    out["digest"] = log.digest()
    return out


def shrink(plan: dict):
    if plan["type"] == "roundtrip":
        for key, simple in (("fitted", False), ("features", ["Y0", "Y1", "Y2", "Y3"][: plan["nf"]]), ("name", None), ("kind", "logistic_diag")):
            if plan.get(key) != simple:
                p = copy.deepcopy(plan)
                p[key] = simple
                if key == "kind":
                    p["nf"] = max(2, plan["nf"])
                    p["features"] = (plan["features"] + ["Yx", "Yy"])[: p["nf"]]
                yield p
        return
    w = plan["world"]
    for n in sorted({1, 2, 3, w["n_iter"] // 2, w["n_iter"] - 1}):
        if 1 <= n < w["n_iter"]:
            p = copy.deepcopy(plan)
            p["world"]["n_iter"] = n
            p["world"]["decisions"] = {k: v for k, v in w["decisions"].items() if int(k) <= n}
            p["world"].pop("annealing", None)
            yield p
