"""C07 — individuals are conditionally independent and order-equivariant (twinsim + simulated / real workers)."""
from __future__ import annotations

import contextlib
import copy
import hashlib
import io
import os
import warnings

import numpy as np
import pandas as pd
import torch

from ..core import workload
from ..core.driver import EventLog, new_outcome, violation
from ..core.rng import SimRng, Stream
from ..core.seams import observe
from . import apisim_common as ac
from . import persosim

PROPERTY = "C07"
TIERS = {
    "quick": {"runs": 260, "budget_s": 115, "chunk": 3},
    "thorough": {"runs": 8000, "budget_s": 900, "chunk": 6},
}
REQUIRED_PROBES = {
    "quick": ["probe.peer_change_compared", "probe.alone_vs_batch_compared", "probe.permutation_compared", "probe.schedules_compared", "probe.totals_checked"],
    "thorough": ["probe.peer_change_compared", "probe.alone_vs_batch_compared", "probe.permutation_compared", "probe.schedules_compared", "probe.totals_checked",
                 "probe.jobs_interleaved", "probe.real_loky_pool", "probe.partial_rejections_in_chain"],
}
DESCRIBE = {
    "rule": "one case = one model (hand-written parameters) + one cohort (2-7 individuals) + one algorithm (mean_posterior / mode_posterior / scipy_minimize) + one twin relation: "
            "(a) every other individual's observations replaced, (b) one individual alone instead of in the batch, (c) cohort permuted, (d) simulated executor with 1-4 workers in seeded job order "
            "or as parked threads interleaved at every objective evaluation, (e) the real loky pool with a scheduled worker hash seed; draws are served per individual identifier, so they follow "
            "their individual through (a)-(c); distinct = configuration digest; non-trivial = twin outputs compared",
    "distinct_measure": "digest of (model kind, cohort shape, algorithm, relation, schedule)",
    "real": ["individual Gibbs sampler, MCMC personalisation, ScipyMinimizeAlgorithm per-individual jobs", "obs models / per-individual likelihood terms", "joblib + loky in leg (e)"],
    "stub": ["randn / rand served per individual id", "prior samples of the optimisation start points served per individual id", "joblib executor simulated except in leg (e)"],
    "assumptions": ["(a), (d), (e) and (c) for the optimisation: bit-equality of per-individual outputs; (b) and (c) for the samplers (batched BLAS products may round a row differently at another position): rtol 1e-5 on terms and identical decisions unless the uniform is within 1e-4 of the ratio",
                    "totals compared with the sum of per-individual terms with rtol 1e-5", "in leg (e) OS scheduling of workers is not controlled; jobs share no memory and results are collected in submission order"],
}
KINDS = ["logistic_diag", "logistic_scalar", "logistic_uni", "logistic_diag_nosrc", "linear_diag", "shared_speed", "joint_multi", "joint_ev2", "logistic_binary"]


class IdWorld(persosim.PersoWorld):
    """Draws addressed by individual identifier (they follow their individual when the cohort is reordered or reduced)."""

    def __init__(self, *a, ids=None, **k):
        super().__init__(*a, **k)
        self.ids = list(ids)
        self.current_pid = None
        self.prior_calls = {}
        self.near_tie = False

    def on_randn(self, shape, kw):
        if len(shape) and shape[0] == len(self.ids):
            per = int(np.prod(shape[1:])) if len(shape) > 1 else 1
            rows = [Stream(self.cfg["gseed"], "z", self.k, self.call_no, pid).normals(per) for pid in self.ids]
            self.call_no += 1
            return torch.tensor(rows, dtype=torch.float32).reshape(shape)
        return super().on_randn(shape, kw)

    def on_rand(self, shape, kw):
        if len(shape) == 1 and shape[0] == len(self.ids):
            u = [Stream(self.cfg["gseed"], "u", self.k, self.call_no, pid).random() for pid in self.ids]
            self.call_no += 1
            ut = torch.tensor(u, dtype=torch.float32).clamp(max=persosim.F32_ONE_MINUS)
            a = self.pending_alpha
            self.pending_alpha = None
            if a is not None:
                a = torch.as_tensor(a).detach().double().reshape(-1)
                if bool(((ut.double() - a).abs() <= 1e-4 * a.abs()).any()):
                    self.near_tie = True
            return ut
        return super().on_rand(shape, kw)


def make_plan(seed: int, tier: str) -> dict:
    rng = SimRng(seed)
    st = rng.stream("plan")
    kind = st.choice(KINDS)
    info = workload.kind_info(kind)
    nf = 1 if info["uni"] else st.choice([2, 3])
    algo = st.choice(["mean_posterior", "mode_posterior", "scipy_minimize", "scipy_minimize"])
    relation = st.choice(["peer_change", "alone", "permutation"] + (["schedule", "schedule"] if algo == "scipy_minimize" else []))
    if relation == "alone" and info["event"]:
        relation = st.choice(["peer_change", "permutation"])     # (a joint cohort of one individual cannot be loaded)
    if algo == "scipy_minimize" and st.bernoulli(0.06 if tier == "quick" else 0.03):
        relation = "loky"
    n = st.choice([2, 3, 5, 7])
    plan = {"seed": seed, "tier": tier, "engine": "twinsim_c07", "kind": kind, "nf": nf, "algo": algo, "relation": relation, "n": n,
            "gseed": st.u64() & 0xFFFFFFFF, "max_visits": st.randint(2, 4), "missing": st.choice([0.0, 0.2]), "aseed": st.randint(0, 9),
            "n_iter": st.randint(4, 10), "target": st.randint(0, 63), "perm_seed": st.randint(0, 999),
            "schedule": st.choice(["shuffled", "threads", "threads"]), "workers": st.randint(2, 4), "n_jobs": st.choice([2, 3, 4]),
            "hashseed": st.choice([1, 7, 123, 4242])}
    if algo != "scipy_minimize" and st.bernoulli(0.3):
        plan["sharp"] = True
        plan["n"] = st.choice([2, 2, 3])
        plan["n_iter"] = st.randint(8, 16)
    if algo == "scipy_minimize" and st.bernoulli(0.35):
        # documented optimiser options: a small iteration budget makes some individuals stop unconverged (their "convergence history"
        # must stay their own), another method / no jacobian exercises the other code paths
        plan["custom_scipy"] = st.choice([
            {"method": "Powell", "options": {"maxiter": st.randint(1, 8)}},
            {"method": "Powell", "options": {"maxiter": st.randint(1, 8), "xtol": 1e-4, "ftol": 1e-4}},
            {"method": "Nelder-Mead", "options": {"maxiter": st.randint(5, 30)}},
        ])
        plan["use_jacobian"] = st.bernoulli(0.5)
    return plan


def _settings(plan, kind, nf):
    d = ac.handwritten_settings(Stream(plan["gseed"], "model"), kind, nf)
    if plan.get("sharp") and "noise_std" in d["parameters"]:
        # very informative individuals: almost every proposal has an acceptance ratio that underflows to 0, so whole steps are
        # rejected for everybody at once (the draw for each decision must still be consumed)
        ns = d["parameters"]["noise_std"]
        d["parameters"]["noise_std"] = [round(x * 0.05, 6) for x in ns] if isinstance(ns, list) else round(ns * 0.05, 6)
    return d


def build(plan):
    kind, nf = plan["kind"], plan["nf"]
    with ac.quiet():
        model = ac.load_from_settings(_settings(plan, kind, nf))
        df = workload.make_cohort(Stream(plan["gseed"], "cohort"), kind=kind, n=plan["n"], n_features=nf, max_visits=plan["max_visits"], min_visits=1,
                                  missing_rate=plan["missing"], ensure_two_visits=0, id_prefix="S")
    return model, df


def peer_changed(df, plan, keep_id, kind):
    """Same visit grid and missing pattern, other individuals' observed values replaced."""
    st = Stream(plan["gseed"], "peer")
    info = workload.kind_info(kind)
    df2 = df.copy(deep=True)
    feats = [c for c in df.columns if c.startswith("Y")]
    for r in df2.index:
        if df2.loc[r, "ID"] == keep_id:
            continue
        for f in feats:
            if not pd.isna(df2.loc[r, f]):
                df2.loc[r, f] = (1.0 if st.bernoulli(0.5) else 0.0) if info["binary"] else round(min(max(st.uniform(0.02, 0.98), 0.01), 0.99), 5)
    if info["event"]:
        # the other individuals' *event* observations change too: dates moved (possibly before the population's reference time),
        # statuses exchanged between two of them (the set of statuses present in the cohort is kept, the reader derives the number of events from it)
        others = [pid for pid in dict.fromkeys(df2["ID"]) if pid != keep_id]
        for pid in others:
            sel = df2["ID"] == pid
            t_last = float(df2.loc[sel, "TIME"].max())
            new_t = round(t_last + st.uniform(0.0, 2.5), 3) if st.bernoulli(0.5) else round(float(df2.loc[sel, "EVENT_TIME"].iloc[0]) - st.uniform(0.2, 6.0), 3)
            df2.loc[sel, "EVENT_TIME"] = max(new_t, round(t_last, 3))
        if len(others) >= 2:
            a, b = others[0], others[-1]
            ea, eb = df2.loc[df2["ID"] == a, "EVENT_BOOL"].iloc[0], df2.loc[df2["ID"] == b, "EVENT_BOOL"].iloc[0]
            df2.loc[df2["ID"] == a, "EVENT_BOOL"] = eb
            df2.loc[df2["ID"] == b, "EVENT_BOOL"] = ea
    return df2


def personalise(model_settings_plan, df, kind, algo, plan, *, schedule="sequential", workers=2, n_jobs=1, real_pool=False, C=None, log=None):
    """One personalisation of `df` by a fresh model under the id-addressed seams; returns (ip dict, world, exc)."""
    with ac.quiet():
        model = ac.load_from_settings(_settings(plan, kind, plan["nf"]))
        data = workload.to_data(df, kind)
    ids = list(dict.fromkeys(df["ID"]))
    cfg = {"gseed": plan["gseed"], "decisions": {}, "schedule": schedule, "workers": workers}
    world = IdWorld(cfg, model, data, log or EventLog(), C, ids=ids)
    kw = dict(seed=plan["aseed"], progress_bar=False)
    if algo == "scipy_minimize":
        kw["n_jobs"] = n_jobs
        if plan.get("custom_scipy"):
            kw["custom_scipy_minimize_params"] = copy.deepcopy(plan["custom_scipy"])
            kw["use_jacobian"] = bool(plan.get("use_jacobian", True))
            if C is not None:
                C["probe.custom_optimiser_options"] += 1
    else:
        kw["n_iter"] = plan["n_iter"]
    # prior samples (start points of the optimisation) served per individual identifier
    import leaspy.models.time_reparametrized as trm
    import leaspy.variables.distributions as dist

    def b_put(mdl, args, kwargs):
        ds = args[1] if len(args) > 1 else kwargs.get("dataset")
        world.current_pid = ds.indices[0] if ds.n_individuals == 1 else None

    orig_sample = dist.StatelessDistributionFamilyFromTorchDistribution.__dict__["sample"].__func__

    def served_sample(cls, *params, sample_shape=()):
        pid = world.current_pid
        if pid is None or real_pool:
            return orig_sample(cls, *params, sample_shape=sample_shape)
        ref = orig_sample(cls, *params, sample_shape=sample_shape)   # (consumes the real generator like the real code; gives shape / dtype)
        c = world.prior_calls.get(pid, 0)
        world.prior_calls[pid] = c + 1
        z = torch.tensor(Stream(plan["gseed"], "prior", pid, c).normals(ref.numel()), dtype=ref.dtype).reshape(ref.shape)
        loc, scale = params[0], params[1]
        return (loc + scale * z).to(ref.dtype).reshape(ref.shape)

    with contextlib.ExitStack() as es:
        es.enter_context(observe(trm.TimeReparametrizedModel, "put_individual_parameters", b_put, None))
        if not real_pool:
            from ..core.seams import patched

            es.enter_context(patched(dist.StatelessDistributionFamilyFromTorchDistribution, "sample", classmethod(served_sample)))
        if real_pool:
            ip, exc = _run_real_pool(world, model, data, algo, kw)
        else:
            ip, exc = world.run(algo, **kw)
    d = None
    if ip is not None:
        d = {pid: {k: np.atleast_1d(np.asarray(v, dtype=np.float64)) for k, v in ip[pid].items()} for pid in ip._indices}
    # the run's observable outcome enters the event log (what the determinism self-test compares across interpreters / hash seeds)
    h = hashlib.sha256()
    for pid in (d or {}):
        for k in sorted(d[pid]):
            h.update(f"{pid}.{k}:".encode() + np.ascontiguousarray(d[pid][k]).tobytes())
    world.log.add("personalised", algo, schedule, "pool" if real_pool else "sim", len(world.chain), type(exc).__name__ if exc else "-", h.hexdigest()[:16])
    return d, world, exc


def _run_real_pool(world, model, data, algo, kw):
    try:
        with warnings.catch_warnings(), contextlib.redirect_stdout(io.StringIO()):
            warnings.simplefilter("ignore")
            return model.personalize(data, algo, **kw), None
    except Exception as e:
        return None, e


def _eq(a, b):
    return a.shape == b.shape and np.array_equal(a, b, equal_nan=True)


def run_plan(plan: dict) -> dict:
    out = new_outcome(plan)
    log = EventLog()
    torch.set_num_threads(1)
    C = out["counters"]
    kind, algo, rel = plan["kind"], plan["algo"], plan["relation"]
    try:
        model, df = build(plan)
    except Exception as e:
        out["discarded"] = f"setup:{type(e).__name__}"
        out["digest"] = "setup-failed"
        return out
    ids = list(dict.fromkeys(df["ID"]))
    target = ids[plan["target"] % len(ids)]
    where = f"kind={kind} algo={algo} relation={rel} n={len(ids)} target={target}"
    C[f"relation.{rel}"] += 1
    C[{"peer_change": "fault.other_individuals_observations_replaced", "alone": "fault.cohort_reduced_to_one_individual", "permutation": "fault.cohort_permuted",
       "schedule": "fault.seeded_worker_schedule", "loky": "fault.real_pool_with_scheduled_hash_seed"}.get(rel, "fault.other")] += 1
    if plan.get("sharp"):
        C["probe.sharp_likelihood_cohort"] += 1
    C[f"algo.{algo}"] += 1
    base, wbase, ebase = personalise(None, df, kind, algo, plan, C=C, log=log)
    if ebase is not None:
        out["discarded"] = f"base_raised:{type(ebase).__name__}"
        return _finish(out, plan, log)
    # totals are the sums of the per-individual terms (sampling-based runs record the chain)
    if wbase.chain:
        C["probe.totals_checked"] += 1
        st = wbase.state
        try:
            tot, ind = persosim.tval(st["nll_attach"]).double(), persosim.tval(st["nll_attach_ind"]).double()
            if not torch.allclose(tot, ind.sum(), rtol=1e-5, atol=1e-6):
                violation(out, "totals", "attachment_total_not_sum_of_individuals", f"{where}: {float(tot)!r} vs {float(ind.sum())!r}")
            tot, ind = persosim.tval(st["nll_regul_ind_sum"]).double(), persosim.tval(st["nll_regul_ind_sum_ind"]).double()
            if not torch.allclose(tot, ind.sum(), rtol=1e-5, atol=1e-6):
                violation(out, "totals", "regularity_total_not_sum_of_individuals", f"{where}: {float(tot)!r} vs {float(ind.sum())!r}")
        except Exception:
            pass
        if any(0 < int((a["values"]["xi"] != b["values"]["xi"]).sum()) < len(ids) for a, b in zip(wbase.chain, wbase.chain[1:])):
            C["probe.partial_rejections_in_chain"] += 1

    def chain_rows(world, pid):
        i = world.ids.index(pid)
        return [({k: v[i].clone() for k, v in c["values"].items()}, c["attach"][i].clone(), c["regul"][i].clone()) for c in world.chain]

    if rel == "peer_change":
        df2 = peer_changed(df, plan, target, kind)
        twin, wt, et = personalise(None, df2, kind, algo, plan, C=C, log=log)
        if et is not None:
            out["discarded"] = f"twin_raised:{type(et).__name__}"
            return _finish(out, plan, log)
        C["probe.peer_change_compared"] += 1
        for k in base[target]:
            if not _eq(base[target][k], twin[target][k]):
                violation(out, "independence", f"personalised_parameters_depend_on_other_individuals:{algo}", f"{where}: {k}: {base[target][k].tolist()} vs {twin[target][k].tolist()}")
        for j, (ra, rb) in enumerate(zip(chain_rows(wbase, target), chain_rows(wt, target))):
            if any(not torch.equal(ra[0][k], rb[0][k]) for k in ra[0]) or not torch.equal(ra[1], rb[1]) or not torch.equal(ra[2], rb[2]):
                violation(out, "independence", f"chain_of_individual_depends_on_other_individuals:{algo}", f"{where}: iteration {j + 1}")
                break
    elif rel == "alone":
        df1 = df[df["ID"] == target].reset_index(drop=True)
        if workload.kind_info(kind)["event"]:
            out["discarded"] = "joint_single_individual_cohort_not_loadable"
            return _finish(out, plan, log)
        twin, wt, et = personalise(None, df1, kind, algo, plan, C=C, log=log)
        if et is not None:
            out["discarded"] = f"twin_raised:{type(et).__name__}"
            return _finish(out, plan, log)
        C["probe.alone_vs_batch_compared"] += 1
        if algo == "scipy_minimize":
            for k in base[target]:
                if not _eq(base[target][k], twin[target][k]):
                    violation(out, "independence", "alone_vs_batch:scipy_minimize", f"{where}: {k}: {base[target][k].tolist()} vs {twin[target][k].tolist()}")
        else:
            for j, (ra, rb) in enumerate(zip(chain_rows(wbase, target), chain_rows(wt, target))):
                vals_ok = all(torch.allclose(ra[0][k].double(), rb[0][k].double(), rtol=1e-5, atol=1e-6) for k in ra[0])
                terms_ok = torch.allclose(ra[1], rb[1], rtol=1e-5, atol=1e-5) and torch.allclose(ra[2], rb[2], rtol=1e-5, atol=1e-5)
                if not (vals_ok and terms_ok):
                    if wbase.near_tie or wt.near_tie:
                        C["skip.near_tie_divergence"] += 1
                        break
                    violation(out, "independence", f"alone_vs_batch:{algo}:{'values' if not vals_ok else 'terms'}", f"{where}: iteration {j + 1}")
                    break
    elif rel == "permutation":
        perm = Stream(plan["perm_seed"], "perm").shuffle(ids)
        if perm == ids:
            perm = ids[::-1]
        df2 = pd.concat([df[df["ID"] == pid] for pid in perm]).reset_index(drop=True)
        twin, wt, et = personalise(None, df2, kind, algo, plan, C=C, log=log)
        if et is not None:
            out["discarded"] = f"twin_raised:{type(et).__name__}"
            return _finish(out, plan, log)
        C["probe.permutation_compared"] += 1
        if list(twin) != perm:
            violation(out, "equivariance", f"output_order_not_input_order:{algo}", f"{where}: {list(twin)} vs {perm}")
        else:
            # optimisation treats every individual in its own state: bit-equal.  Sampling-based algorithms evaluate the batch at once and
            # BLAS kernels (sources @ mixing_matrix, sources @ zeta) may round a row differently at another position: rounding-level tolerance.
            for pid in ids:
                for k in base[pid]:
                    same_ = _eq(base[pid][k], twin[pid][k]) if algo == "scipy_minimize" else \
                        (base[pid][k].shape == twin[pid][k].shape and np.allclose(base[pid][k], twin[pid][k], rtol=1e-5, atol=1e-6))
                    if not same_:
                        if algo != "scipy_minimize" and (wbase.near_tie or wt.near_tie):
                            C["skip.near_tie_divergence"] += 1
                            break
                        violation(out, "equivariance", f"individual_output_changes_with_position:{algo}", f"{where}: {pid}.{k}: {base[pid][k].tolist()} vs {twin[pid][k].tolist()}")
                        break
                if out["violations"]:
                    break
            if wbase.chain and not out["violations"]:
                ta = sum(float(c["attach"].sum()) for c in wbase.chain)
                tb = sum(float(c["attach"].sum()) for c in wt.chain)
                # float32 terms of either sign: the tolerance follows the summed magnitudes, not the (possibly cancelling) total
                mag = sum(float(c["attach"].abs().sum()) for c in wbase.chain)
                if abs(ta - tb) > 1e-6 + 1e-5 * mag:
                    violation(out, "equivariance", "totals_change_with_order", f"{where}: {ta!r} vs {tb!r}")
    elif rel == "schedule":
        twin, wt, et = personalise(None, df, kind, algo, plan, schedule=plan["schedule"], workers=plan["workers"], n_jobs=plan["n_jobs"], C=C, log=log)
        if et is not None:
            violation(out, "workers", f"raised_under_schedule:{plan['schedule']}:{type(et).__name__}", f"{where}: {type(et).__name__}: {str(et)[:200]}")
            return _finish(out, plan, log)
        C["probe.schedules_compared"] += 1
        log.add("schedule", plan["schedule"], plan["workers"], wt.interleaving_switches)
        if list(twin) != list(base):
            violation(out, "workers", f"results_not_in_input_order:{plan['schedule']}", f"{where}: {list(twin)}")
        else:
            for pid in base:
                for k in base[pid]:
                    if not _eq(base[pid][k], twin[pid][k]):
                        violation(out, "workers", f"result_depends_on_worker_schedule:{plan['schedule']}", f"{where}: {pid}.{k}: {base[pid][k].tolist()} vs {twin[pid][k].tolist()} "
                                  f"(workers={plan['workers']}, {wt.interleaving_switches} switches)")
                        break
                if out["violations"]:
                    break
    elif rel == "loky":
        # real process pool; the one influential source of nondeterminism of a worker (its hash seed) is scheduled
        C["probe.real_loky_pool"] += 1
        old = os.environ.get("PYTHONHASHSEED")
        try:
            from joblib.externals.loky import get_reusable_executor

            seq, _, e0 = personalise(None, df, kind, algo, plan, n_jobs=1, real_pool=True, C=C, log=log)
            os.environ["PYTHONHASHSEED"] = str(plan["hashseed"])
            get_reusable_executor(kill_workers=True).shutdown(wait=True)
            par, _, e1 = personalise(None, df, kind, algo, plan, n_jobs=min(plan["n_jobs"], 3), real_pool=True, C=C, log=log)
            get_reusable_executor(kill_workers=True).shutdown(wait=True)
        finally:
            if old is None:
                os.environ.pop("PYTHONHASHSEED", None)
            else:
                os.environ["PYTHONHASHSEED"] = old
        if e0 is not None or e1 is not None:
            out["discarded"] = f"loky_raised:{type(e0 or e1).__name__}"
            return _finish(out, plan, log)
        C["probe.schedules_compared"] += 1
        for pid in seq:
            for k in seq[pid]:
                if not _eq(seq[pid][k], par[pid][k]):
                    ns = model.source_dimension or 0
                    violation(out, "workers", f"real_pool_result_differs_from_sequential:worker_hash_seed:{'three_individual_variables' if ns else 'two_individual_variables'}",
                              f"{where}: {pid}.{k}: n_jobs=1 {seq[pid][k].tolist()} vs n_jobs={min(plan['n_jobs'], 3)} (worker PYTHONHASHSEED={plan['hashseed']}) {par[pid][k].tolist()}")
                    break
            if out["violations"]:
                break
    return _finish(out, plan, log)


def _finish(out, plan, log):
    C = out["counters"]
    key = tuple((k, str(v)) for k, v in sorted(plan.items()) if k not in ("seed", "tier", "engine", "gseed", "aseed"))
    out["keys"].add("run:" + hashlib.sha1(repr(key).encode()).hexdigest()[:16])
    out["nontrivial"] = sum(C[k] for k in ("probe.peer_change_compared", "probe.alone_vs_batch_compared", "probe.permutation_compared", "probe.schedules_compared")) > 0 or bool(out["violations"])
    out["digest"] = log.digest()
    out["sample"] = {k: v for k, v in plan.items() if k not in ("seed", "tier", "engine", "gseed")}
    return out


def shrink(plan: dict):
    for key, vals in (("n", [2, 3]), ("max_visits", [2]), ("missing", [0.0]), ("n_iter", [2, 4]), ("workers", [2]), ("kind", ["logistic_diag", "logistic_uni"])):
        for v in vals:
            if plan.get(key) != v:
                p = copy.deepcopy(plan)
                p[key] = v
                if key == "kind" and v == "logistic_uni":
                    p["nf"] = 1
                yield p
