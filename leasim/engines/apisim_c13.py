"""C13 — estimate, personalize and simulate leave the model and caller inputs untouched (apisim)."""
from __future__ import annotations

import copy
import hashlib
import os
import tempfile

import warnings

import numpy as np
import pandas as pd
import torch

from ..core import workload
from ..core.driver import EventLog, ddmin_list, new_outcome, tdigest, violation
from ..core.rng import SimRng, Stream
from ..ref.refeval import same
from . import apisim_common as ac

PROPERTY = "C13"
TIERS = {
    "quick": {"runs": 240, "budget_s": 115, "chunk": 2},
    "thorough": {"runs": 6000, "budget_s": 900, "chunk": 4},
}
REQUIRED_PROBES = {
    "quick": ["probe.call_after_fit", "probe.twin_compared", "probe.repeated_call", "probe.settings_reused"],
    "thorough": ["probe.call_after_fit", "probe.twin_compared", "probe.repeated_call", "probe.settings_reused", "probe.call_after_load",
                 "probe.simulate_call", "probe.personalize.scipy_minimize", "probe.personalize.mean_posterior", "probe.personalize.mode_posterior", "probe.estimate_call"],
}
DESCRIBE = {
    "rule": "one case = one model object (fitted 3-6 iterations, or loaded from hand-written parameters) and a seeded sequence of 3-9 public calls among estimate, "
            "personalize (scipy_minimize / mean_posterior / mode_posterior) on varying cohorts, simulate (logistic with sources), save, load-and-continue, repeats of an earlier call "
            "and reuse of one AlgorithmSettings object; around every call deep snapshots of model and caller inputs, and the same call replayed on a fresh twin built from the parameters "
            "as they are at that moment; distinct = digest of (model kind, origin, call-kind sequence); non-trivial = at least one call compared with its fresh twin",
    "distinct_measure": "digest of (model kind, fitted/loaded, sequence of call kinds); call-kind 3-grams counted separately",
    "real": ["BaseModel.fit / personalize / estimate / simulate / save / load", "all personalisation algorithms, scipy.optimize.minimize (Powell)", "State clone / terminate logic", "Data / Dataset readers"],
    "stub": ["none: the generators are the real ones (recorded mode), seeded through the algorithms' own seed setting"],
    "assumptions": ["the fresh twin receives the parameter tensors themselves (same dtype, same bits), so any difference in results comes from history, not from file rounding",
                    "results compared bit for bit (same process, one thread)", "mixture model not covered"],
}
KINDS = ["logistic_diag", "logistic_scalar", "logistic_uni", "logistic_diag_nosrc", "linear_diag", "linear_uni", "shared_speed", "joint_uni", "joint_multi", "joint_ev2", "logistic_binary"]
PERSO = ["scipy_minimize", "mean_posterior", "mode_posterior"]


def make_plan(seed: int, tier: str) -> dict:
    rng = SimRng(seed)
    st = rng.stream("plan")
    if st.bernoulli(0.06):
        # the benchmark LME model ("personalize (all algorithms)", "a model object of any kind"): caller-owned inputs of each accepted type
        return {"seed": seed, "tier": tier, "engine": "apisim_c13", "type": "lme", "n": st.randint(6, 12), "visits": st.randint(3, 6), "slope": st.bernoulli(0.5),
                "input": st.choice(["dataset", "dataset", "data", "dataframe"]), "missing": st.bernoulli(0.3), "gseed": st.u64() & 0xFFFFFFFF, "calls": st.randint(2, 3)}
    kind = st.choice(KINDS)
    info = workload.kind_info(kind)
    nf = 1 if info["uni"] else st.choice([2, 3])
    origin = st.choice(["fit", "fit", "load"])
    plan = {"seed": seed, "tier": tier, "engine": "apisim_c13", "kind": kind, "nf": nf, "origin": origin, "mseed": st.u64() & 0xFFFFFFFF,
            "fit_iter": st.randint(3, 6), "train_n": st.choice([3, 4, 5]), "ops": []}
    n_ops = st.randint(3, 6 if tier == "quick" else 9)
    for i in range(n_ops):
        k = st.weighted([("personalize", 10), ("estimate", 5), ("simulate", 2 if kind in ("logistic_diag", "logistic_scalar") else 0), ("save_load", 2),
                         ("repeat", 3 if i else 0), ("refit", 1)])
        op = {"op": k}
        if k == "personalize":
            op.update(algo=st.choice(PERSO), cohort=st.randint(0, 2), n=st.randint(1, 4), aseed=st.randint(0, 5), n_iter=st.choice([6, 10, 16]),
                      via_settings=st.bernoulli(0.4), reuse_settings=st.bernoulli(0.5), annealing=st.bernoulli(0.3))
            # the commonest real call: the training cohort itself, or another cohort of the same size (shape coincidence with what the fit left behind)
            w = st.weighted([("other", 6), ("same_size", 2), ("train", 2)])
            if w == "same_size":
                op["n"] = plan["train_n"]
            elif w == "train":
                op["cohort"] = "train"
                op["n"] = plan["train_n"]
        elif k == "estimate":
            op.update(cohort=st.randint(0, 2), n=st.randint(1, 3))
        elif k == "simulate":
            op.update(aseed=st.randint(0, 5), patients=st.randint(3, 5))
            if st.bernoulli(0.5):
                # table-driven design handed over by the caller: it must come back untouched (values, dtypes, row labels)
                op["table"] = {"id_dtype": st.choice(["object", "string", "category"]), "n": st.randint(2, 4), "visits": st.randint(1, 3),
                               "labels": st.choice(["default", "gaps"])}
        elif k == "repeat":
            op.update(which=st.randint(0, 63))
        elif k == "refit":
            op.update(n_iter=st.randint(2, 4), aseed=st.randint(0, 5))
        plan["ops"].append(op)
    if origin == "load" and st.bernoulli(0.25):
        plan["tiny_noise"] = st.choice([5e-4, 1e-4, 1e-6])   # a nearly noise-free marker (hand-written / synthetic calibration)
    return plan


def _train_df(plan):
    return workload.make_cohort(Stream(plan["mseed"], "train"), kind=plan["kind"], n=plan.get("train_n", 5), n_features=plan["nf"], max_visits=3, id_prefix="t")


def _cohort_df(plan, idx, n):
    if idx == "train":
        return _train_df(plan)
    st = Stream(plan["mseed"], "cohort", idx)
    df = workload.make_cohort(st, kind=plan["kind"], n=max(n, 2), n_features=plan["nf"], max_visits=3, id_prefix=f"c{idx}_", missing_rate=0.1)
    ids = list(dict.fromkeys(df["ID"]))[:n]
    df = df[df["ID"].isin(ids)].reset_index(drop=True)
    if workload.kind_info(plan["kind"])["event"]:
        # keep both censored and observed events when possible
        pass
    return df


def _fresh_twin(model, kind, nf):
    """A model freshly built from the parameters as they are now (same tensors, no history)."""
    with ac.quiet():
        twin = workload.make_model(kind, nf)
        twin.features = list(model.features)
        twin.load_parameters({k: v.clone() for k, v in model.parameters.items()})
        twin._is_initialized = True
    return twin


def _exact_twin(model, kind, nf):
    """Like the fresh twin, but every parameter tensor keeps the exact shape / dtype it has in the model
    (load_parameters reshapes to the declared shapes)."""
    from leaspy.variables.specs import LatentVariableInitType

    twin = _fresh_twin(model, kind, nf)
    with ac.quiet(), twin.state.auto_fork(None):
        for k, v in model.parameters.items():
            twin.state[k] = v.clone()
        twin.state.put_population_latent_variables(LatentVariableInitType.PRIOR_MODE)
    return twin


def _ip_digest(ip) -> str:
    df = ip.to_dataframe()
    return hashlib.sha1(repr(list(df.index)).encode() + repr(list(df.columns)).encode() + np.ascontiguousarray(df.values.astype(np.float64)).tobytes()).hexdigest()[:16]


def _df_digest(df) -> str:
    return hashlib.sha1(repr(list(df.index)).encode() + repr(list(df.columns)).encode() + np.ascontiguousarray(df.values.astype(np.float64)).tobytes()).hexdigest()[:16]


def _model_core(model):
    """What must stay exactly as it was: parameters, hyperparameters, population variables."""
    s = model.state
    d = {}
    for nm in list(model.parameters_names) + list(model.hyperparameters_names) + list(model.population_variables_names):
        d[nm] = ac.clone_value(s._values.get(nm))
    return d


def _model_transient(model):
    from leaspy.variables.specs import DataVariable

    s = model.state
    names = list(s.dag.sorted_variables_by_type.get(DataVariable, {})) + list(model.individual_variables_names)
    return {nm: ac.clone_value(s._values.get(nm)) for nm in names}


def run_lme(plan, out, log):
    from leaspy.io.data import Data, Dataset
    from leaspy.models import LMEModel

    C = out["counters"]
    C["type.lme"] += 1
    st = Stream(plan["gseed"], "lme")
    rows = []
    for i in range(plan["n"]):
        t0 = 60 + 10 * st.random()
        b = 0.5 * st.normal()
        for k_ in range(plan["visits"]):
            t = round(t0 + k_ * (0.8 + 0.4 * st.random()), 3)
            rows.append((f"s{i}", t, round(0.2 + b + 0.05 * (t - 65) + 0.02 * st.normal(), 5)))
    df = pd.DataFrame(rows, columns=["ID", "TIME", "Y"])
    try:
        with ac.quiet():
            model = LMEModel("lme", with_random_slope_age=plan["slope"])
            model.fit(Data.from_dataframe(df), "lme_fit")
    except Exception as e:
        out["discarded"] = f"setup:{type(e).__name__}"
        return
    ids = [f"s{i}" for i in range(min(3, plan["n"]))]
    new = df[df.ID.isin(ids)].reset_index(drop=True)
    if plan["missing"]:
        new.loc[new.index[1], "Y"] = np.nan
    inp = {"dataframe": new, "data": Data.from_dataframe(new), "dataset": Dataset(Data.from_dataframe(new))}[plan["input"]]

    def snap():
        if plan["input"] == "dataframe":
            return inp.copy(deep=True)
        if plan["input"] == "dataset":
            return {k_: getattr(inp, k_).clone() for k_ in ("timepoints", "values", "mask")}
        return inp.to_dataframe().copy(deep=True)

    def same_input(a):
        b = snap()
        if isinstance(a, dict):
            return all(torch.equal(a[k_], b[k_]) for k_ in a)
        return a.equals(b) and list(a.dtypes) == list(b.dtypes)

    params_before = copy.deepcopy(model.parameters)
    results = []
    for ci in range(plan["calls"]):
        before = snap()
        try:
            with ac.quiet():
                ip = model.personalize(inp, "lme_personalize")
        except Exception as e:
            violation(out, "call_completes", f"call_raised:personalize:lme_personalize:{type(e).__name__}", f"call {ci}: {e}")
            return
        C["probe.lme_call"] += 1
        if not same_input(before):
            violation(out, "inputs_untouched", f"input_modified:{plan['input']}:personalize:lme_personalize", f"call {ci}: the caller's {plan['input']} changed")
            return
        d_ = ip._individual_parameters     # (IndividualParameters.to_dataframe() fails on scalar-shaped entries: C16 territory)
        results.append(hashlib.sha1(repr([(i_, sorted((k_, np.round(np.atleast_1d(np.asarray(v_, dtype=np.float64)), 12).tolist()) for k_, v_ in d_[i_].items()))
                                          for i_ in ip._indices]).encode()).hexdigest()[:16])
        log.add("lme", ci, results[-1])
    if len(set(results)) > 1:
        violation(out, "history_independence", "repeated_call_differs:personalize:lme_personalize", f"{results}")
    if str(params_before) != str(model.parameters):
        violation(out, "model_untouched", "model_core_changed:personalize:lme_personalize", "LME parameters changed")
    out["keys"].add("run:" + hashlib.sha1(repr(("lme", plan["n"], plan["visits"], plan["slope"], plan["input"], plan["missing"])).encode()).hexdigest()[:16])
    out["nontrivial"] = True
    out["sample"] = {k_: v for k_, v in plan.items() if k_ not in ("seed", "tier", "engine", "gseed")}


def run_plan(plan: dict) -> dict:
    from leaspy.algo import AlgorithmSettings
    from leaspy.models import BaseModel

    out = new_outcome(plan)
    log = EventLog()
    torch.set_num_threads(1)
    C = out["counters"]
    if plan.get("type") == "lme":
        with warnings.catch_warnings():
            warnings.simplefilter("ignore")
            run_lme(plan, out, log)
        out["digest"] = log.digest()
        return out
    kind, nf = plan["kind"], plan["nf"]
    info = workload.kind_info(kind)
    try:
        with ac.quiet():
            if plan["origin"] == "fit":
                df0 = _train_df(plan)
                model = workload.make_model(kind, nf)
                model.fit(workload.to_data(df0, kind), "mcmc_saem", n_iter=plan["fit_iter"], seed=1, progress_bar=False)
            else:
                hs = ac.handwritten_settings(Stream(plan["mseed"], "model"), kind, nf)
                if plan.get("tiny_noise") and "noise_std" in hs["parameters"]:
                    ns_ = hs["parameters"]["noise_std"]
                    if isinstance(ns_, list):
                        ns_[len(ns_) // 2] = plan["tiny_noise"]
                    else:
                        hs["parameters"]["noise_std"] = plan["tiny_noise"]
                    C["probe.tiny_noise_level"] += 1
                model = ac.load_from_settings(hs)
    except Exception as e:
        out["discarded"] = f"setup:{type(e).__name__}"
        out["digest"] = "setup-failed"
        return out
    C[f"model.{kind}"] += 1
    history = []     # executed call descriptors (for repeats)
    results = {}     # call key -> digest
    shared_settings = {}
    fresh_since = plan["origin"]  # "fit" | "load" | "clean"
    kinds_seq = []
    scratch = os.environ.get("LEASIM_SCRATCH") or tempfile.gettempdir()

    def do_call(m, desc, settings_pool):
        """Execute one call on model m; returns (digest, input_checks)"""
        k = desc["op"]
        if k == "personalize":
            df = _cohort_df(plan, desc["cohort"], desc["n"])
            df_copy = df.copy(deep=True)
            kw = dict(seed=desc["aseed"], progress_bar=False)
            if desc["algo"] != "scipy_minimize":
                kw["n_iter"] = desc["n_iter"]
                if desc.get("annealing"):
                    kw["annealing"] = {"do_annealing": True, "initial_temperature": 5, "n_plateau": 2, "n_iter_frac": 0.5}
            if desc["via_settings"]:
                key = (desc["algo"], desc["aseed"], desc.get("n_iter"), bool(desc.get("annealing"))) if desc["reuse_settings"] else None
                if key is not None and key in settings_pool:
                    settings = settings_pool[key]
                    C["probe.settings_reused"] += 1
                    C["fault.settings_object_reused"] += 1
                else:
                    settings = AlgorithmSettings(desc["algo"], **kw)
                    if key is not None:
                        settings_pool[key] = settings
                before = copy.deepcopy(settings.parameters)
                data = workload.to_data(df, kind)
                ip = m.personalize(data, algorithm_settings=settings)
                checks = [("settings.parameters", before == settings.parameters and settings.seed == desc["aseed"])]
            else:
                ip = m.personalize(df if not info["event"] else workload.to_data(df, kind), desc["algo"], **kw)
                checks = []
            checks.append(("dataframe", df.equals(df_copy) and list(df.dtypes) == list(df_copy.dtypes) and list(df.index) == list(df_copy.index)
                           and list(df.columns) == list(df_copy.columns)))
            return _ip_digest(ip), checks
        if k == "estimate":
            df = _cohort_df(plan, desc["cohort"], desc["n"])
            ids = list(dict.fromkeys(df["ID"]))
            st = Stream(plan["mseed"], "ips", desc["cohort"])
            params = {kk: v.tolist() for kk, v in m.parameters.items()}
            ip, vals = ac.individual_parameters(st, kind, params, ids, m.source_dimension or 0)
            ip_before = (copy.deepcopy(ip._individual_parameters), list(ip._indices))
            tp = {pid: [70.0, 75.5, 81.0] for pid in ids}
            tp_copy = copy.deepcopy(tp)
            res = m.estimate(tp, ip)
            dig = hashlib.sha1(b"".join(np.ascontiguousarray(res[p]).tobytes() for p in ids)).hexdigest()[:16]
            return dig, [("individual_parameters", (ip._individual_parameters, list(ip._indices)) == ip_before), ("timepoints", tp == tp_copy)]
        if k == "simulate":
            vp = {"patient_number": desc["patients"], "visit_type": "random", "first_visit_mean": 0.0, "first_visit_std": 0.4, "time_follow_up_mean": 3.0,
                  "time_follow_up_std": 0.5, "distance_visit_mean": 1.0, "distance_visit_std": 0.2, "min_spacing_between_visits": 0.1}
            table = None
            if desc.get("table"):
                t = desc["table"]
                rows = [(f"v{i}", round(62.0 + 3.1 * i + 1.3 * j, 2)) for i in range(t["n"]) for j in range(t["visits"])]
                table = pd.DataFrame(rows, columns=["ID", "TIME"])
                if t["id_dtype"] != "object":
                    table["ID"] = table["ID"].astype(t["id_dtype"])
                if t["labels"] == "gaps":
                    table.index = [5 + 2 * i for i in range(len(table))]
                vp = {"visit_type": "dataframe", "df_visits": table}
                C["probe.simulate_from_caller_table"] += 1
            table_before = table.copy(deep=True) if table is not None else None
            vp_copy = {k_: v for k_, v in vp.items() if k_ != "df_visits"}
            vp_copy = copy.deepcopy(vp_copy)
            feats = list(m.features)
            res = m.simulate(algorithm="simulate", features=feats, visit_parameters=vp, seed=desc["aseed"])
            df = res.data.to_dataframe()
            checks = [("visit_parameters", {k_: v for k_, v in vp.items() if k_ != "df_visits"} == vp_copy), ("features", feats == list(m.features))]
            if table is not None:
                same_table = (vp.get("df_visits") is table and table.equals(table_before) and list(table.dtypes.astype(str)) == list(table_before.dtypes.astype(str))
                              and list(table.index) == list(table_before.index) and list(table.columns) == list(table_before.columns))
                checks.append((f"visit_table:{desc['table']['id_dtype']}", same_table))
            return _df_digest(df.set_index(["ID", "TIME"]) if "ID" in df.columns else df), checks
        raise ValueError(k)

    with ac.quiet():
        for oi, op in enumerate(plan["ops"]):
            k = op["op"]
            desc = op
            if k == "repeat":
                if not history:
                    continue
                desc = history[op["which"] % len(history)]
                C["probe.repeated_call"] += 1
                C["fault.call_repeated_later_in_the_history"] += 1
            kk = desc["op"]
            kinds_seq.append(k if k != "repeat" else f"repeat_{kk}")
            where = f"op{oi}:{kinds_seq[-1]}:{desc.get('algo', '')}:after_{fresh_since}"
            if kk == "refit":
                try:
                    df0 = workload.make_cohort(Stream(plan["mseed"], "train", oi), kind=kind, n=5, n_features=nf, max_visits=3, id_prefix="r")
                    model.fit(workload.to_data(df0, kind), "mcmc_saem", n_iter=desc["n_iter"], seed=desc["aseed"], progress_bar=False)
                    fresh_since = "fit"
                    C["fault.model_refitted_in_the_middle"] += 1
                    results.clear()   # parameters changed: earlier answers are no longer comparable
                    log.add("refit", oi)
                except Exception as e:
                    log.add("refit_raised", type(e).__name__)
                    break
                continue
            if kk == "save_load":
                d = tempfile.mkdtemp(prefix="c13-", dir=scratch)
                try:
                    core0 = _model_core(model)
                    p = os.path.join(d, "m.json")
                    model.save(p)
                    bad = [nm for nm, v in _model_core(model).items() if not same(v, core0[nm])]
                    if bad:
                        violation(out, "model_untouched", "save_changed_model", f"{where}: {bad[:4]}")
                    try:
                        model = BaseModel.load(p)
                        fresh_since = "load"
                        results.clear()  # (the file may round parameters to its precision: a different model as far as C13 goes)
                        C["probe.call_after_load"] += 1
                        log.add("save_load", oi)
                    except Exception as e:
                        log.add("load_raised", type(e).__name__)   # C12's business
                finally:
                    import shutil

                    shutil.rmtree(d, ignore_errors=True)
                continue
            # ---------------------------------------------------------------- a call that must leave everything untouched
            C[f"probe.{'personalize.' + desc['algo'] if kk == 'personalize' else kk + '_call'}"] += 1
            if fresh_since == "fit":
                C["probe.call_after_fit"] += 1
            core0 = _model_core(model)
            trans0 = _model_transient(model)
            twin = _fresh_twin(model, kind, nf)
            try:
                dig, checks = do_call(model, desc, shared_settings)
                err = None
            except Exception as e:
                dig, checks, err = None, [], e
                if os.environ.get("LEASIM_DEBUG"):
                    import traceback

                    traceback.print_exc()
            try:
                dig_t, _ = do_call(twin, desc, {})
                err_t = None
            except Exception as e:
                dig_t, err_t = None, e
            log.add("call", oi, kinds_seq[-1], desc.get("algo"), dig, type(err).__name__ if err else "")
            if err is not None:
                if err_t is None:
                    violation(out, "history_independence", f"call_fails_on_used_model_only:{kk}:{desc.get('algo', '')}:{type(err).__name__}:after_{fresh_since}:{info['family']}",
                              f"{where}: {type(err).__name__}: {str(err)[:300]} (the same call on a fresh twin succeeds)")
                else:
                    C["abort.call_raised_on_both:" + type(err).__name__] += 1
                break
            if err_t is not None:
                C["abort.twin_raised:" + type(err_t).__name__] += 1
                break
            C["probe.twin_compared"] += 1
            # (1) parameters, hyperparameters, population variables exactly as they were
            core1 = _model_core(model)
            bad = [nm for nm in core0 if not same(core0[nm], core1.get(nm))]
            if bad:
                violation(out, "model_untouched", f"model_core_changed:{kk}:{desc.get('algo', '')}", f"{where}: {bad[:5]}")
            # (2) nothing of the call left behind
            trans1 = _model_transient(model)
            left = [nm for nm in trans1 if trans1[nm] is not None and not same(trans1[nm], trans0.get(nm))]
            if left:
                violation(out, "nothing_left_behind", f"call_data_left_in_model:{kk}:{desc.get('algo', '')}", f"{where}: {left[:5]}")
            # (3) caller inputs
            for what, ok in checks:
                if not ok:
                    violation(out, "inputs_untouched", f"input_modified:{what}:{kk}:{desc.get('algo', '')}", where)
            # (4) same answer as a fresh twin
            if dig != dig_t:
                # is it the history, or only the shape the fit gave to a parameter tensor (e.g. a 0-d noise_std)?
                shapes = {k: (tuple(v.shape), tuple(twin.parameters[k].shape)) for k, v in model.parameters.items() if tuple(v.shape) != tuple(twin.parameters[k].shape)}
                cls = "history"
                if shapes:
                    try:
                        dig_e, _ = do_call(_exact_twin(model, kind, nf), desc, {})
                        if dig_e == dig:
                            cls = "parameter_tensor_shape:" + ",".join(sorted(shapes))
                    except Exception:
                        pass
                if cls == "history":
                    violation(out, "history_independence", f"result_differs_from_fresh_twin:{kk}:{desc.get('algo', '')}:after_{fresh_since}:{info['family']}",
                              f"{where}: {dig} vs twin {dig_t}")
                else:
                    violation(out, "history_independence", f"result_depends_on_{cls}:{kk}:{desc.get('algo', '')}",
                              f"{where}: {dig} vs reloaded twin {dig_t}; shapes (fitted, reloaded) {shapes}")
            # (5) same answer as the same call earlier on this object
            ck = repr(sorted((a, b) for a, b in desc.items() if a not in ("via_settings", "reuse_settings")))
            if ck in results and results[ck] != dig:
                violation(out, "repeatable", f"repeated_call_differs:{kk}:{desc.get('algo', '')}", f"{where}: {results[ck]} then {dig}")
            results[ck] = dig
            if k != "repeat":
                history.append(desc)
            if kk == "personalize" and desc["algo"] != "scipy_minimize":
                fresh_since = "clean"
            if out["violations"]:
                break
    out["keys"].add("run:" + hashlib.sha1(repr((kind, plan["origin"], kinds_seq)).encode()).hexdigest()[:16])
    for a, b, c in zip(kinds_seq, kinds_seq[1:], kinds_seq[2:]):
        out["keys"].add(f"g3:{a}>{b}>{c}")
    out["nontrivial"] = C["probe.twin_compared"] > 0
    out["digest"] = log.digest()
    out["sample"] = {"kind": kind, "origin": plan["origin"], "ops": [{k: v for k, v in o.items() if k in ("op", "algo", "cohort", "n", "aseed")} for o in plan["ops"]]}
    return out


def shrink(plan: dict):
    if plan.get("type") == "lme":
        for key, vals in (("calls", [2]), ("n", [6]), ("visits", [3]), ("missing", [False]), ("slope", [False])):
            for v_ in vals:
                if plan[key] != v_:
                    p = dict(plan)
                    p[key] = v_
                    yield p
        return
    for cand in ddmin_list(plan["ops"]):
        if cand:
            p = dict(plan)
            p["ops"] = cand
            yield p
    for i, op in enumerate(plan["ops"]):
        for key, simple in (("n", 1), ("via_settings", False), ("cohort", 0), ("aseed", 0)):
            if key in op and op[key] != simple:
                p = copy.deepcopy(plan)
                p["ops"][i][key] = simple
                yield p
    if plan["fit_iter"] > 3:
        p = copy.deepcopy(plan)
        p["fit_iter"] = 3
        yield p
