"""Child interpreter of procsim: executes a process history, then the measured call(s); prints one JSON line.

Usage: python -m leasim.engines.procsim_child <plan.json> <mode>
   mode = "reference": no history, no logging, measured call once
   mode = "history":   history ops, measured call under the logging configuration and clock plan, then once more without logging
"""
from __future__ import annotations

import contextlib
import hashlib
import io
import json
import os
import sys
import traceback
import warnings


def main():
    plan = json.loads(open(sys.argv[1]).read())
    mode = sys.argv[2]
    warnings.simplefilter("ignore")
    import matplotlib

    matplotlib.use("Agg")
    import numpy as np
    import torch

    torch.set_num_threads(1)
    import leaspy.models  # noqa: F401

    from leasim.core import workload
    from leasim.core.rng import Stream
    from leasim.core.seams import VirtualClock, _TimeModule, patched
    from leasim.engines import apisim_common as ac

    kind, nf = plan["kind"], plan["nf"]
    info = workload.kind_info(kind)
    out = {"digests": [], "errors": [], "notes": []}
    scratch = plan["scratch"]
    os.chdir(scratch)

    def cohort(tag, n=5):
        if kind == "mixture":
            n = max(n, 9)    # (two clusters need a few individuals each)
        return workload.make_cohort(Stream(plan["gseed"], "cohort", tag), kind=kind, n=n, n_features=nf, max_visits=3, id_prefix="S")

    def tdig(ts):
        h = hashlib.sha256()
        for t in ts:
            a = np.ascontiguousarray(np.asarray(t, dtype=np.float64))
            h.update(str(a.shape).encode())
            h.update(a.tobytes())
        return h.hexdigest()[:20]

    def measured(logs: dict | None, clock: VirtualClock | None):
        call = plan["call"]
        kw = dict(seed=plan["aseed"], progress_bar=False)
        cm = contextlib.ExitStack()
        with cm, contextlib.redirect_stdout(io.StringIO()):
            if clock is not None:
                import leaspy.algo.base as algo_base
                import leaspy.algo.fit.fit_output_manager as fom

                tm = _TimeModule(clock)
                cm.enter_context(patched(algo_base, "time", tm))
                cm.enter_context(patched(fom, "time", tm))
            reuse = plan.get("reuse_settings") if mode == "history" else None

            def settings_used_before(name, kw_):
                """One AlgorithmSettings object, already used for an earlier seeded call with another number of iterations."""
                from leaspy.algo import AlgorithmSettings

                st_ = AlgorithmSettings(name, **{k_: v_ for k_, v_ in kw_.items() if k_ not in ("path", "print_periodicity", "save_periodicity",
                                                                                                 "plot_periodicity", "plot_patient_periodicity", "nb_of_patients_to_plot",
                                                                                                 "overwrite_logs_folder", "plot_sourcewise")})
                st_.parameters["n_iter"] = reuse["earlier_n_iter"]
                try:
                    if name == "mcmc_saem":
                        m0 = workload.make_model(kind, nf)
                        m0.fit(workload.to_data(cohort("train"), kind), algorithm_settings=st_)
                    else:
                        m0 = ac.load_from_settings(ac.handwritten_settings(Stream(plan["gseed"], "model"), kind, nf))
                        m0.personalize(workload.to_data(cohort("perso", n=3), kind), algorithm_settings=st_)
                except Exception as e_:   # the *earlier* call may be refused (e.g. too few iterations for the plateaus) or fail: it is history
                    out["notes"].append(f"earlier call with the shared settings raised {type(e_).__name__}")
                st_.parameters["n_iter"] = kw_["n_iter"]
                return st_

            if call == "fit":
                model = workload.make_model(kind, nf, **({"initialization_method": "random"} if plan.get("init_random") else {}))
                data = workload.to_data(cohort("train"), kind)
                kw.update(n_iter=plan["n_iter"])
                if plan.get("annealing"):
                    kw["annealing"] = dict(plan["annealing"])
                if reuse and not logs:
                    model.fit(data, algorithm_settings=settings_used_before("mcmc_saem", kw))
                else:
                    if logs:
                        kw.update(logs)
                    model.fit(data, "mcmc_saem", **kw)
                p = model.parameters
                return tdig([p[k].detach().numpy() for k in sorted(p)])
            model = ac.load_from_settings(ac.handwritten_settings(Stream(plan["gseed"], "model"), kind, nf))
            if call in ("scipy_minimize", "mean_posterior", "mode_posterior"):
                data = workload.to_data(cohort("perso", n=3), kind)
                if call != "scipy_minimize":
                    kw.update(n_iter=plan["n_iter"])
                    if plan.get("annealing"):
                        kw["annealing"] = dict(plan["annealing"])
                if reuse and call != "scipy_minimize":
                    ip = model.personalize(data, algorithm_settings=settings_used_before(call, kw))
                else:
                    ip = model.personalize(data, call, **kw)
                d = ip._individual_parameters
                return tdig([np.atleast_1d(np.asarray(d[i][k], dtype=np.float64)) for i in ip._indices for k in sorted(d[i])])
            if call == "simulate":
                vp = {"patient_number": 4, "visit_type": "random", "first_visit_mean": 0.0, "first_visit_std": 0.4, "time_follow_up_mean": 3.0,
                      "time_follow_up_std": 0.5, "distance_visit_mean": 1.0, "distance_visit_std": 0.2, "min_spacing_between_visits": 0.1}
                res = model.simulate(algorithm="simulate", features=list(model.features), visit_parameters=vp, seed=plan["aseed"])
                df = res.data.to_dataframe()
                return tdig([df[[c for c in df.columns if c != "ID"]].values]) + ":" + hashlib.sha1(repr(list(df["ID"])).encode()).hexdigest()[:6]
            raise ValueError(call)

    def safe(label, fn):
        try:
            out["digests"].append([label, fn()])
        except BaseException as e:  # noqa
            tb = traceback.extract_tb(e.__traceback__)
            where = next((f"{os.path.basename(f.filename)}:{f.name}" for f in reversed(tb) if "leaspy" in f.filename and "leasim" not in f.filename), "?")
            out["errors"].append([label, type(e).__name__, str(e)[:200], where])

    if mode == "reference":
        safe("reference", lambda: measured(None, None))
    else:
        import random

        for op in plan["history"]:
            k = op["op"]
            try:
                with contextlib.redirect_stdout(io.StringIO()):
                    if k == "burn_rng":
                        for _ in range(op["n"]):
                            random.random()
                        np.random.normal(size=op["n"])
                        torch.randn(op["n"])
                        torch.rand(op["n"] // 2 + 1)
                    elif k == "seed_other":
                        random.seed(op["s"])
                        np.random.seed(op["s"])
                        torch.manual_seed(op["s"])
                    elif k == "earlier_fit":
                        ok = op["kind"]
                        m = workload.make_model(ok, 3)
                        d = workload.to_data(workload.make_cohort(Stream(plan["gseed"], "hist", ok), kind=ok, n=9 if ok == "mixture" else 5, n_features=3, max_visits=3), ok)
                        m.fit(d, "mcmc_saem", n_iter=op["n_iter"], seed=op["s"], progress_bar=False)
                    elif k == "earlier_personalize":
                        ok = op["kind"]
                        m = ac.load_from_settings(ac.handwritten_settings(Stream(plan["gseed"], "hm", ok), ok, 3))
                        d = workload.to_data(workload.make_cohort(Stream(plan["gseed"], "hp", ok), kind=ok, n=3, n_features=3, max_visits=3), ok)
                        m.personalize(d, op["algo"], seed=op["s"], progress_bar=False, **({} if op["algo"] == "scipy_minimize" else {"n_iter": 6}))
                    elif k == "open_figures":
                        import matplotlib.pyplot as plt

                        for _ in range(op["n"]):
                            plt.figure()
                            plt.plot([0, 1], [1, 0])
                    elif k == "default_dtype_roundtrip":
                        torch.set_default_dtype(torch.float64)
                        torch.zeros(2)
                        torch.set_default_dtype(torch.float32)
            except Exception as e:
                out["notes"].append(f"history op {k} raised {type(e).__name__}")
        clock = VirtualClock()
        clock.jumps = [tuple(j) for j in plan.get("clock_jumps", [])]
        logs = dict(plan["logs"]) if plan.get("logs") else None
        if logs and logs.get("path"):
            logs["path"] = os.path.join(scratch, logs["path"])
        safe("with_history_and_logging", lambda: measured(logs, clock))
        safe("again_without_logging", lambda: measured(None, None))
    print("PROCSIM-RESULT " + json.dumps(out))


if __name__ == "__main__":
    main()
