"""C03 — every sampler step is a Metropolis-Hastings transition for the documented target (stepsim)."""
from __future__ import annotations

import copy
import hashlib
import warnings

import numpy as np
import torch

from ..core.driver import EventLog, ddmin_list, new_outcome, violation
from ..core.rng import SimRng
from ..ref import bridge
from ..ref.refeval import describe_diff, same
from . import stepsim

PROPERTY = "C03"
TIERS = {
    "quick": {"runs": 1200, "budget_s": 110, "chunk": 4},
    "thorough": {"runs": 12000, "budget_s": 900, "chunk": 8},
}
REQUIRED_PROBES = {
    "quick": ["probe.tie_u_equals_alpha", "probe.alpha_ge_1", "probe.decision_judged"],
    "thorough": ["probe.tie_u_equals_alpha", "probe.alpha_ge_1", "probe.decision_judged", "probe.alpha_zero_u_zero", "probe.alpha_nan",
                 "probe.t_inv_lt_1", "probe.target_checked_refmath", "probe.kind.PopulationFastGibbsSampler",
                 "probe.kind.PopulationMetropolisHastingsSampler", "probe.kind.PopulationGibbsSampler", "probe.kind.IndividualGibbsSampler"],
}
DESCRIBE = {
    "rule": "one case = one model kind + cohort + sampler configuration and 3-20 real sampler.sample() calls at inverse temperatures in (0,1] "
            "with served normals and served uniforms placed relative to the acceptance ratio (exact tie u==alpha, alpha(1±1e-4), 0, largest float<1, "
            "forced accept/reject masks); per call: draw-protocol automaton, proposal == std[block]*z on the block only, accepted <=> u < exp(-D) with D "
            "rebuilt from four from-scratch evaluations, terms vs float64 closed-form densities; distinct = digest of (variable, sampler kind, T_inv, decision styles, outcomes)",
    "distinct_measure": "digest of the sequence of (variable, sampler kind, T_inv, decision style, accept/reject outcome per block)",
    "real": ["leaspy samplers (gibbs.py, base.py) incl. _metropolis_step / _group_metropolis_step", "State / DAG / every model kind's likelihood graph", "torch CPU kernels"],
    "stub": ["torch.randn / torch.rand as seen from leaspy.samplers (served)", "random.shuffle in samplers.gibbs (served permutation)"],
    "assumptions": ["decisions are judged against the alpha the sampler passes to its metropolis step when observable (exact, ties included) and otherwise "
                    "against the from-scratch alpha outside a 1e-5 relative near-tie band (skipped near-ties are counted)",
                    "float64 closed forms are compared with rtol 1e-4 (float32 arithmetic in leaspy)",
                    "mixture model: the responsibility-weighted regularity is transcribed from the code (no independent documentation) and the RefMath target check is skipped for it"],
}

DEC_POP = ["natural", "natural", "tie", "tie", "zero", "one_minus", "just_above", "just_below", "reject", "accept"]
DEC_IND = ["natural", "natural", "tie", "zero", "one_minus", "just_above", "just_below", "random", "reject_one", "alternate"]
PROPOSALS = ["ordinary", "ordinary", "ordinary", "ordinary", "tail", "huge_one", "zero"]


def make_plan(seed: int, tier: str) -> dict:
    rng = SimRng(seed)
    st = rng.stream("plan")
    # the mixture model is included: its responsibilities depend on the sampled block, so the property's own words
    # ("regularity of everything that depends on that block") require them to be re-evaluated in the proposed state;
    # only the RefMath target check (d) is skipped for it (no independent documentation of the weighted rule)
    cfg = stepsim.gen_world_cfg(rng.stream("world"), allow_mixture=True)
    n_steps = st.randint(3, 10 if tier == "quick" else 20)
    steps = []
    it = 1
    for i in range(n_steps):
        if i > 0 and st.bernoulli(0.1):
            steps.append({"mstep": it})
            it += 1
            continue
        is_ind = st.bernoulli(0.5)
        s = {"sel": st.randint(0, 63), "ind": is_ind,
             "t_inv": st.choice([1.0, 1.0, 0.5, 0.25, 0.1, round(st.uniform(0.001, 1.0), 4)]),
             "proposal": st.choice(PROPOSALS), "decision": st.choice(DEC_IND if is_ind else DEC_POP),
             "foreign": "none", "order": st.choice(["seeded", "seeded", "identity", "reversed"])}
        if s["proposal"] == "huge_one":
            s["huge_scale"] = st.choice([1e3, 1e5])
        steps.append(s)
    return {"seed": seed, "tier": tier, "engine": "stepsim_c03", "world": cfg, "steps": steps}


def expected_blocks(world, rec):
    """[(idx, randn shape)] the documented block structure of each sampler kind demands."""
    val = rec.pre_indep[rec.var]
    shape = tuple(val.shape)
    if rec.is_ind:
        return [((), shape)]
    kind = world.cfg["sampler_pop"].lower().replace("_", "-")
    if kind == "gibbs":
        return [(idx, ()) for idx in np.ndindex(shape)]
    if kind == "fastgibbs":
        return [((i,), shape[1:]) for i in range(shape[0])]
    return [((), shape)]


def run_plan(plan: dict) -> dict:
    out = new_outcome(plan)
    log = EventLog()
    torch.set_num_threads(1)
    try:
        world = stepsim.StepWorld(plan["world"], log, out["counters"])
    except Exception as e:
        out["discarded"] = f"setup:{type(e).__name__}"
        out["digest"] = "setup-failed"
        return out
    C = out["counters"]
    C[f"model.{plan['world']['kind']}"] += 1
    keyparts = []
    with world.installed(), warnings.catch_warnings():
        warnings.simplefilter("ignore")
        for si, step in enumerate(plan["steps"]):
            if "mstep" in step:
                try:
                    world.mstep(step["mstep"])
                except Exception as e:
                    log.add("mstep_raised", type(e).__name__)
                    break
                continue
            names = world.ind_names if step["ind"] else world.pop_names
            var = names[step["sel"] % len(names)]
            rec = world.sample(var, step["t_inv"], step)
            C["steps.sample"] += 1
            C["steps.blocks"] += len(rec.blocks)
            if rec.error:
                C["abort.sampler_raised"] += 1
                break
            check_step(world, rec, out, si, step, keyparts)
            if out["violations"]:
                break
    out["keys"].add("run:" + hashlib.sha1("|".join(keyparts).encode()).hexdigest()[:16])
    out["nontrivial"] = C["probe.decision_judged"] > 0
    out["digest"] = log.digest()
    out["sample"] = {"world": {k: v for k, v in plan["world"].items() if k != "gseed"}, "steps": plan["steps"][:10], "observed": keyparts[:10]}
    if out["violations"]:
        out["sample"]["log_tail"] = log.tail[-12:]
    return out


def check_step(world, rec, out, si, step, keyparts):
    C = out["counters"]
    var = rec.var
    where = f"step{si}:{var}:{rec.kind}:T_inv={rec.t_inv}"
    C[f"probe.kind.{rec.kind}"] += 1
    if rec.t_inv < 1:
        C["probe.t_inv_lt_1"] += 1
    exp_blocks = expected_blocks(world, rec)
    kind = "ind" if rec.is_ind else world.cfg["sampler_pop"]

    # ---- (a) draw protocol automaton
    exp_calls = []
    if not rec.is_ind and world.cfg.get("random_order_dimension", True):
        exp_calls.append(("shuffle", len(exp_blocks)))
    for idx, shp in exp_blocks:
        exp_calls.append(("randn", tuple(shp)))
        exp_calls.append(("rand", (world.n,) if rec.is_ind else ()))
    if rec.calls != exp_calls:
        got_kinds = [c[0] for c in rec.calls]
        exp_kinds = [c[0] for c in exp_calls]
        if got_kinds != exp_kinds:
            sig = f"draw_sequence:{kind}:got_{_rle(got_kinds)}_expected_{_rle(exp_kinds)}"
        else:
            sig = f"draw_shapes:{kind}"
        violation(out, "draw_protocol", sig, f"{where}: calls {rec.calls[:8]} expected {exp_calls[:8]}")
        return
    # blocks visited = exactly the documented blocks (each once)
    if not rec.is_ind:
        got_idx = sorted(tuple(b.idx) for b in rec.blocks)
        if got_idx != sorted(tuple(i) for i, _ in exp_blocks):
            violation(out, "draw_protocol", f"blocks_visited:{kind}", f"{where}: visited {got_idx}")
            return

    outcome = []
    for bi, b in enumerate(rec.blocks):
        # ---- (b) proposal: zero-mean gaussian perturbation std[block] * z of the targeted block only
        if rec.is_ind:
            std_b = rec.std_before[(slice(None),) + (None,) * (b.z.ndim - 1)]
            exp_change = std_b * b.z
            exp_post = b.pre_value + exp_change
        else:
            exp_change = rec.std_before[b.idx] * b.z
            if b.idx == ():
                exp_post = b.pre_value + exp_change
            else:
                exp_post = b.pre_value.index_put(tuple(map(torch.tensor, b.idx)), exp_change, accumulate=True)
        if b.change is not None and not same(b.change, exp_change):
            violation(out, "proposal", f"change_not_std_times_z:{kind}", f"{where} block {bi}: {describe_diff(b.change, exp_change)}")
            return
        if not same(b.post_value, exp_post):
            violation(out, "proposal", f"proposed_value_not_block_perturbation:{kind}", f"{where} block {bi} idx={b.idx}: {describe_diff(b.post_value, exp_post)}")
            return
        if b.terms is None or b.accepted is None:
            C["skip.no_terms"] += 1
            continue
        acc = torch.as_tensor(b.accepted).reshape(-1).to(torch.bool)
        u = b.u.reshape(-1)
        # ---- (c) decision
        a_t = b.alpha_t.reshape(-1)
        a64 = b.alpha64.reshape(-1)
        if b.alpha_arg is not None:
            a_arg = torch.as_tensor(b.alpha_arg).detach().reshape(-1)
            # the alpha handed to the metropolis step is exp(-D) with D from the four from-scratch terms
            ok = torch.isclose(a_arg.double(), a64, rtol=2e-4, atol=1e-30, equal_nan=True) | (torch.isinf(a_arg) & torch.isinf(a64)) \
                | ((a_arg == 0) & (a64 < 1e-37)) | (torch.isinf(a_arg) & (a64 > 1e38))
            # ratios of huge numbers lose relative accuracy in float32: compare D instead when alpha is extreme
            d_arg = -torch.log(a_arg.double())
            d_64 = -torch.log(a64)
            ok = ok | torch.isclose(d_arg, d_64, rtol=1e-4, atol=1e-3 * (1 + _scale(b)), equal_nan=True)
            if not bool(ok.all()):
                j = int((~ok).nonzero()[0])
                violation(out, "acceptance_ratio", f"alpha_not_exp_minus_D:{kind}:{_which_term(b, rec, j)}",
                          f"{where} block {bi} entry {j}: alpha passed {float(a_arg[j])!r} vs from scratch {float(a64[j])!r} "
                          f"(terms pre/post attach {_f(b.terms[0], j)}/{_f(b.terms[2], j)} regul {_f(b.terms[1], j)}/{_f(b.terms[3], j)})")
                return
            a_dec = a_arg.float()
            exact = True
        else:
            a_dec = a_t.float()
            exact = False
        # the comparison the documented rule prescribes, with the sampler's own type promotion
        a_cmp = a_arg if exact else a_dec
        expect_all = (b.u.reshape(-1) < a_cmp).reshape(-1)
        for j in range(acc.numel()):
            aj, uj = float(a_cmp[j].double()), float(u[j].double())
            if np.isnan(aj):
                C["probe.alpha_nan"] += 1
                if bool(acc[j]):
                    violation(out, "decision", f"nan_alpha_accepted:{kind}", f"{where} block {bi} entry {j}")
                    return
                continue
            if not exact and abs(uj - aj) <= 1e-5 * abs(aj):
                C["skip.near_tie"] += 1
                continue
            expect = bool(expect_all[j])
            C["probe.decision_judged"] += 1
            if uj == aj:
                C["probe.tie_u_equals_alpha"] += 1
                if aj == 0.0:
                    C["probe.alpha_zero_u_zero"] += 1
            if aj >= 1:
                C["probe.alpha_ge_1"] += 1
            if bool(acc[j]) != expect:
                cls = "tie" if uj == aj else ("alpha_ge_1" if aj >= 1 else "ordinary")
                violation(out, "decision", f"accepted_not_iff_u_lt_alpha:{kind}:{cls}",
                          f"{where} block {bi} entry {j}: u={uj!r} alpha={aj!r} accepted={bool(acc[j])}")
                return
        outcome.append("".join("a" if x else "r" for x in acc.tolist()))
        # ---- (c') outcome: "accepted" is what the state holds afterwards, not what a helper reported - the block is at its proposed
        # value exactly where u < alpha and at its previous value elsewhere (a NaN ratio is never below a draw)
        if exact or not bool(((u.double() - a_cmp.double()).abs() <= 1e-5 * a_cmp.double().abs()).any()):
            after = rec.blocks[bi + 1].pre_value if bi + 1 < len(rec.blocks) else world.read_indep()[var]
            if rec.is_ind:
                m = expect_all.reshape((-1,) + (1,) * (b.pre_value.ndim - 1))
                exp_after = torch.where(m, b.post_value, b.pre_value)
            else:
                exp_after = b.post_value if bool(expect_all.reshape(-1)[0]) else b.pre_value
            C["probe.outcome_judged"] += 1
            if after is None or not same(after, exp_after):
                rows = "whole_block" if not rec.is_ind else ("all_rows_kept_previous" if after is not None and same(after, b.pre_value) else "some_rows")
                violation(out, "decision", f"state_after_step_not_decided_by_u_lt_alpha:{kind}:{rows}",
                          f"{where} block {bi}: {describe_diff(after, exp_after) if after is not None else 'unset'}; decisions by the rule: "
                          f"{''.join('a' if x else 'r' for x in expect_all.reshape(-1).tolist())}")
                return

    # ---- (d) target: the four terms are the documented negative log-densities (float64 closed forms)
    if not world.is_mixture and rec.blocks and rec.blocks[-1].terms is not None:
        try:
            b = rec.blocks[-1]
            ind = dict(rec.pre_indep)
            ind[var] = b.post_value
            if not bridge.within_float32_exp_range(ind, world.pop_names + world.ind_names):
                raise _OutOfRange()
            rt = bridge.ref_terms(world.cfg["kind"], world.variables, ind, world.pop_names, world.ind_names)
            a1, r1 = b.terms[2], b.terms[3]
            ra = rt["nll_attach_ind"] if rec.is_ind else rt["nll_attach"]
            rr = rt[f"nll_regul_{var}_ind"] if rec.is_ind else rt[f"nll_regul_{var}"]
            fin = np.isfinite(np.asarray(ra, dtype=np.float64)).all() and bool(torch.isfinite(a1).all())
            if fin:
                C["probe.target_checked_refmath"] += 1
                tol = rt["nll_attach_ind_tol"] if rec.is_ind else rt["nll_attach_ind_tol"].sum()
                if not bridge.close64(a1, ra, rtol=2e-4, atol=1e-3, extra_atol=tol):
                    violation(out, "target", f"attachment_not_documented_density:{'ind' if rec.is_ind else 'pop'}",
                              f"{where}: state {a1.reshape(-1)[:4].tolist()} vs closed form {np.asarray(ra).reshape(-1)[:4].tolist()}")
                if not bridge.close64(r1, rr, rtol=2e-4, atol=1e-3):
                    violation(out, "target", f"regularity_not_documented_density:{'ind' if rec.is_ind else 'pop'}",
                              f"{where}: state {r1.reshape(-1)[:4].tolist()} vs closed form {np.asarray(rr).reshape(-1)[:4].tolist()}")
        except _OutOfRange:
            C["skip.float32_exp_range"] += 1
        except Exception as e:
            C["skip.refmath_error:" + type(e).__name__] += 1
    keyparts.append(f"{var}/{rec.kind}/{rec.t_inv}/{step.get('decision')}/{','.join(outcome)}")


class _OutOfRange(Exception):
    pass


def _scale(b):
    return float(max(abs(float(x.abs().max())) if torch.isfinite(x).all() else 0.0 for x in b.terms))


def _f(t, j):
    t = t.reshape(-1)
    return float(t[j]) if t.numel() > 1 else float(t[0])


def _which_term(b, rec, j):
    """Which ingredient of D disagrees? (helps telling 'tempered attachment' from 'dropped T_inv' etc.)"""
    a0, r0, a1, r1 = [x.double().reshape(-1) for x in b.terms]
    jj = j if a0.numel() > 1 else 0
    da = float(a1[jj] - a0[jj])
    dr = float(r1[jj] - r0[jj])
    arg = torch.as_tensor(b.alpha_arg).double().reshape(-1)
    d_arg = float(-torch.log(arg[j if arg.numel() > 1 else 0]))
    t = float(rec.t_inv)
    cands = {"no_temperature": dr + da, "attachment_tempered_too": t * (dr + da), "attachment_tempered_only": dr + t * da,
             "regularity_missing": da, "attachment_missing": t * dr, "sign_flipped": -(t * dr + da)}
    best = min(cands, key=lambda k: abs(cands[k] - d_arg))
    if abs(cands[best] - d_arg) <= 1e-3 * (1 + abs(d_arg)):
        return best
    return "other"


def _rle(kinds):
    out = []
    for k in kinds:
        if out and out[-1][0] == k:
            out[-1][1] += 1
        else:
            out.append([k, 1])
    s = "".join(f"{k[0]}{n if n > 1 else ''}" for k, n in out)
    return s[:24]


def shrink(plan: dict):
    steps = plan["steps"]
    for cand in ddmin_list(steps):
        if cand:
            p = dict(plan)
            p["steps"] = cand
            yield p
    for i, s in enumerate(steps):
        if "mstep" in s:
            continue
        for key, simple in (("order", "identity"), ("t_inv", 1.0), ("decision", "natural"), ("proposal", "ordinary")):
            if s.get(key) != simple:
                p = copy.deepcopy(plan)
                p["steps"][i][key] = simple
                yield p
    w = plan["world"]
    for key, simple in (("missing", 0.0), ("whole_ft", False), ("n", 5), ("max_visits", 2), ("sampler_pop", "Gibbs")):
        if w.get(key) != simple:
            p = copy.deepcopy(plan)
            p["world"][key] = simple
            yield p
