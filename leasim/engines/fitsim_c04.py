"""C04 — the maximisation step is the closed-form maximiser of the sufficient statistics (fitsim)."""
from __future__ import annotations

import copy
import hashlib

import numpy as np
import torch

from ..core import workload
from ..core.driver import EventLog, new_outcome, tdigest, violation
from ..core.rng import SimRng
from ..ref import refmath as rm
from . import fitsim

PROPERTY = "C04"
TIERS = {
    "quick": {"runs": 1200, "budget_s": 110, "chunk": 4},
    "thorough": {"runs": 12000, "budget_s": 900, "chunk": 8},
}
REQUIRED_PROBES = {
    "quick": ["probe.update_in_burn_in", "probe.update_after_burn_in", "probe.noise_with_missing_entries"],
    "thorough": ["probe.update_in_burn_in", "probe.update_after_burn_in", "probe.noise_with_missing_entries", "probe.noise_scalar", "probe.noise_diagonal",
                 "probe.whole_feature_missing", "probe.std_checked_memory_phase"],
}
DESCRIBE = {
    "rule": "one case = one whole real fit (2-40 iterations; burn-in boundary inside the run) of a seeded model kind / noise structure / cohort with a seeded "
            "missing-data pattern, served random draws and forced acceptance phases; around every update_parameters all parameters are recomputed in float64 "
            "from (statistics in force, pre-step parameters); distinct = digest of (model kind, cohort shape, missingness, burn-in spec, decision plan); non-trivial = at least one update checked after a sampler moved",
    "distinct_measure": "digest of (model kind, n, visits, missing rate, n_iter, burn-in spec, sampler, decisions)",
    "real": ["model.update_parameters / ModelParameter rules / obs_models._gaussian noise updates / variables.utilities", "TensorMcmcSaemAlgorithm run loop", "samplers, State"],
    "stub": ["randn / rand / shuffle served", "clock virtual", "stdout captured"],
    "assumptions": ["tolerance rtol 1e-4 / atol 1e-6, except variance formulas that cancel in float32 (post-burn-in dispersion, noise variance), compared through a forward error bound "
                    "32*eps32*(sum of |terms|)", "cohorts have >= 3 individuals", "a LeaspyConvergenceError on a collapsed variance is a legitimate abort",
                    "mixture model: population means, noise level and probabilities (= mean cluster responsibilities, summing to one) are checked; its responsibility-weighted means / deviations have no independent statement and are skipped (counted)"],
}
EPS32 = float(np.finfo(np.float32).eps)


def make_plan(seed: int, tier: str) -> dict:
    rng = SimRng(seed)
    st = rng.stream("plan")
    cfg = fitsim.gen_fit_cfg(rng.stream("world"), max_iter=10 if tier == "quick" else 40)
    cfg["n"] = st.choice([3, 5, 7])
    cfg["missing"] = st.choice([0.0, 0.15, 0.3, 0.45])
    if st.bernoulli(0.08):
        cfg["kind"] = "mixture"
        cfg["n"] = max(cfg["n"], 5)
    if st.bernoulli(0.12):
        # fault: from some iteration on, one feature is reproduced exactly by the model (a saturated / constant score): its residual
        # variance is 0 while the other features keep theirs - the step must give the closed form or refuse, never something else
        cfg["exact_feature"] = {"k": st.randint(1, max(1, cfg["n_iter"] - 1)), "f": st.randint(0, 3)}
    return {"seed": seed, "tier": tier, "engine": "fitsim_c04", "world": cfg}


def wv(t):
    return t.weighted_value if hasattr(t, "weight") else t


class C04Monitor(fitsim.Monitor):
    def __init__(self, out, cfg):
        self.out = out
        self.cfg = cfg
        self.C = out["counters"]
        self.old = None
        self.info = workload.kind_info(cfg["kind"])

    def after_suffstats(self, w, k, stats):
        """The iteration's own statistics are the documented functions of the current latent values (the closed forms below are
        stated in terms of them: a statistic that is not what its name says would make every rule 'consistent' and wrong)."""
        C = self.C
        s = w.state
        where = f"k={k} kind={self.cfg['kind']}"
        C["probe.statistics_content_checked"] += 1
        for nm in sorted(stats):
            val = stats[nm]
            exp = None
            if nm in s.dag and nm in (set(w.pop_names()) | set(w.ind_names())):
                exp = s[nm]
            elif nm.endswith("_sqr") and nm[:-4] in (set(w.pop_names()) | set(w.ind_names())):
                exp = s[nm[:-4]] ** 2
            elif nm == "model_x_model" and "model" in s.dag:
                exp = wv(s["model"]) ** 2
            elif nm == "y_x_model" and "model" in s.dag and "y" in s.dag:
                exp = torch.where(s["y"].weight > 0, s["y"].value, torch.zeros_like(s["y"].value)) * wv(s["model"])
            if exp is None:
                continue
            g, e = rm.f64(wv(val)), rm.f64(wv(exp))
            if nm == "y_x_model":
                g = np.where(rm.weights(s["y"]) > 0, g, 0.0)
                e = np.where(rm.weights(s["y"]) > 0, e, 0.0)
            if g.shape != e.shape or not np.allclose(g, e, rtol=1e-5, atol=1e-7, equal_nan=True):
                violation(self.out, "statistics_content", f"statistic_is_not_what_it_is_named:{'sqr' if nm.endswith('_sqr') else ('value' if nm in s.dag else nm)}",
                          f"{where}: {nm}: {g.reshape(-1)[:4].tolist()} vs {e.reshape(-1)[:4].tolist()}")
                return

    def before_mstep(self, w, k):
        ef = self.cfg.get("exact_feature")
        if not ef or k < ef["k"]:
            return
        s = w.state
        if "y" not in s.dag or "model" not in s.dag or not hasattr(s["y"], "weight"):
            return
        y = s["y"]
        if y.value.ndim != 3 or y.value.shape[-1] < 2 or not y.value.is_floating_point():
            return
        from leaspy.utils.weighted_tensor import WeightedTensor

        f = ef["f"] % y.value.shape[-1]
        v = y.value.clone()
        v[..., f] = wv(s["model"])[..., f].to(v.dtype)
        with s.auto_fork(None):
            s["y"] = WeightedTensor(v, y.weight)
        self.C["fault.feature_reproduced_exactly"] += 1

    def before_update(self, w, k, S, burn_in):
        s = w.state
        self.old = {p: s[p] for p in w.param_names()}
        self.resp = None
        if self.cfg["kind"] == "mixture":
            # cluster responsibilities at the pre-step state (from scratch)
            r = w.evaluator().value("nll_regul_ind_sum_ind")
            r = r.value if hasattr(r, "weight") else r
            self.resp = torch.nn.Softmax(dim=1)(torch.clamp(-r.double(), -100.0)).numpy()
        self.old_hyper = {}
        for nm in ("xi_mean", "tau_mean", "sources_mean"):
            if nm not in self.old and nm in s.dag:
                self.old_hyper[nm] = s[nm]

    def after_update(self, w, k, S, burn_in):
        out, C = self.out, self.C
        s = w.state
        new = {p: s[p] for p in w.param_names()}
        old = self.old
        # the phase is derived from the configuration (k <= n_burn_in), not from the flag the algorithm hands to the rules
        flag = burn_in
        burn_in = k <= w.algo.algo_parameters["n_burn_in_iter"]
        if bool(flag) != burn_in:
            C["probe.flag_differs_from_phase"] += 1
        C["probe.update_in_burn_in" if burn_in else "probe.update_after_burn_in"] += 1
        pops = set(w.pop_names())
        inds = set(w.ind_names())
        where = f"k={k} burn_in={burn_in} kind={self.cfg['kind']}"
        for p in sorted(new):
            got = rm.f64(new[p])
            base = p[: -len("_mean")] if p.endswith("_mean") else (p[: -len("_std")] if p.endswith("_std") else p)
            if self.cfg["kind"] == "mixture" and p != "probs" and not (p.endswith("_mean") and base in pops) and p != "noise_std":
                C["skip.mixture_weighted_rule:" + p] += 1   # responsibility-weighted rules: no independent statement
                continue
            if p.endswith("_mean") and base in pops:
                exp = rm.f64(S[base])
                self._cmp(p, got, exp, where, "prior_mean_of_population_variable")
            elif p.endswith("_mean") and base in inds:
                exp = rm.f64(S[base]).mean(axis=0)
                self._cmp(p, got, exp, where, "prior_mean_of_individual_variable")
            elif p.endswith("_std") and base in inds:
                x = rm.f64(S[base])
                if burn_in:
                    if x.shape[0] < 2:
                        continue
                    exp = x.std(axis=0, ddof=1)
                    if not np.allclose(got.reshape(-1), exp.reshape(-1), rtol=1e-4, atol=1e-5):
                        alt = x.std(axis=0, ddof=0)
                        cls = "biased_estimator" if np.allclose(got.reshape(-1), alt.reshape(-1), rtol=1e-4, atol=1e-5) else "other"
                        violation(out, "dispersion_memoryless", f"{base}_std:{cls}", f"{where}: {p} got {got.reshape(-1).tolist()} expected {exp.reshape(-1).tolist()}")
                else:
                    C["probe.std_checked_memory_phase"] += 1
                    old_mean = rm.f64(old[f"{base}_mean"]) if f"{base}_mean" in old else rm.f64(self.old_hyper.get(f"{base}_mean"))
                    msq = rm.f64(S[f"{base}_sqr"]).mean(axis=0)
                    m = x.mean(axis=0)
                    var = msq - 2 * old_mean * m + old_mean**2
                    tol = 32 * EPS32 * (np.abs(msq) + 2 * np.abs(old_mean * m) + old_mean**2) + 1e-7
                    gv = got**2
                    if not np.all(np.abs(gv.reshape(-1) - var.reshape(-1)) <= tol.reshape(-1) + 1e-4 * np.abs(var.reshape(-1))):
                        new_mean = rm.f64(new[f"{base}_mean"]) if f"{base}_mean" in new else old_mean
                        var_new = msq - 2 * new_mean * m + new_mean**2
                        var_cur = msq - m**2
                        if np.all(np.abs(gv.reshape(-1) - var_new.reshape(-1)) <= tol.reshape(-1) + 1e-4 * np.abs(var_new.reshape(-1))) and not np.allclose(new_mean, old_mean):
                            cls = "uses_new_mean"
                        elif np.allclose(gv.reshape(-1), var_cur.reshape(-1), rtol=1e-3):
                            cls = "centered_on_current_mean"
                        elif np.allclose(got.reshape(-1), x.std(axis=0, ddof=1).reshape(-1), rtol=1e-4):
                            cls = "memoryless_rule_after_burn_in"
                        else:
                            cls = "other"
                        violation(out, "dispersion_memory", f"{base}_std:{cls}", f"{where}: {p} got var {gv.reshape(-1).tolist()} expected {var.reshape(-1).tolist()}")
            elif p == "noise_std":
                self._noise(w, S, got, where)
            elif p == "probs":
                if not np.isfinite(got).all() or self.resp is None or not np.isfinite(self.resp).all():
                    C["skip.mixture_state_not_finite"] += 1   # the (experimental) mixture fit diverged on this tiny cohort: nothing to compare
                    continue
                C["probe.mixture_probabilities_checked"] += 1
                if abs(float(got.sum()) - 1.0) > 1e-5:
                    violation(out, "mixture_probabilities", "probabilities_do_not_sum_to_one", f"{where}: probs = {got.tolist()}")
                elif self.resp is not None and not np.allclose(got.reshape(-1), self.resp.mean(axis=0), rtol=1e-4, atol=1e-6):
                    violation(out, "mixture_probabilities", "not_mean_cluster_responsibilities", f"{where}: probs = {got.tolist()} vs mean responsibilities {self.resp.mean(axis=0).tolist()}")
            else:
                C["skip.param:" + p] += 1
        w.log.add("theta", k, hashlib.sha1("".join(tdigest(new[p]) for p in sorted(new)).encode()).hexdigest()[:10])

    def _cmp(self, p, got, exp, where, what):
        if got.reshape(-1).shape != exp.reshape(-1).shape or not np.allclose(got.reshape(-1), exp.reshape(-1), rtol=1e-4, atol=1e-6, equal_nan=True):
            violation(self.out, what, f"{p}", f"{where}: {p} got {got.reshape(-1)[:4].tolist()} expected {exp.reshape(-1)[:4].tolist()}")

    def _noise(self, w, S, got, where):
        out, C = self.out, self.C
        y = w.state["y"]
        yv = rm.f64(y)
        mask = rm.weights(y) > 0
        n_missing_in_visits = int(((rm.weights(w.state["t"]) > 0)[:, :, None] & ~mask).sum())
        if n_missing_in_visits:
            C["probe.noise_with_missing_entries"] += 1
        if self.cfg.get("whole_ft"):
            C["probe.whole_feature_missing"] += 1
        yxm = rm.f64(S["y_x_model"])
        mxm = rm.f64(S["model_x_model"])
        axes = (0, 1)
        if got.size == 1:
            C["probe.noise_scalar"] += 1
            n_obs = mask.sum()
            t1, t2, t3 = (yv**2 * mask).sum(), (yxm * mask).sum(), (mxm * mask).sum()
            t3_all = mxm.sum()
        else:
            C["probe.noise_diagonal"] += 1
            n_obs = mask.sum(axis=axes)
            t1, t2, t3 = (yv**2 * mask).sum(axis=axes), (yxm * mask).sum(axis=axes), (mxm * mask).sum(axis=axes)
            t3_all = mxm.sum(axis=axes)
        var = (t1 - 2 * t2 + t3) / n_obs
        tol = 32 * EPS32 * (np.abs(t1) + 2 * np.abs(t2) + np.abs(t3)) / n_obs + 1e-8
        gv = got.reshape(-1) ** 2
        if not np.all(np.abs(gv - np.reshape(var, -1)) <= np.reshape(tol, -1) + 1e-4 * np.abs(np.reshape(var, -1))):
            var_all = (t1 - 2 * t2 + t3_all) / n_obs
            if np.allclose(gv, np.reshape(var_all, -1), rtol=1e-3, atol=1e-7):
                cls = "model_squared_summed_over_unobserved_entries"
            else:
                cls = "other"
            structure = "scalar" if got.size == 1 else "diagonal"
            violation(out, "noise_level", f"noise_std:{structure}:{cls}:{'missing_entries_present' if n_missing_in_visits else 'complete_data'}",
                      f"{where}: noise_std got {got.reshape(-1).tolist()} expected {np.sqrt(np.maximum(np.reshape(var, -1), 0)).tolist()} "
                      f"({n_missing_in_visits} unobserved entries inside existing visits)")


def run_plan(plan: dict) -> dict:
    from leaspy.exceptions import LeaspyConvergenceError

    out = new_outcome(plan)
    log = EventLog()
    torch.set_num_threads(1)
    cfg = plan["world"]
    mon = C04Monitor(out, cfg)
    try:
        world = fitsim.FitWorld(cfg, log, out["counters"], [mon])
    except Exception as e:
        out["discarded"] = f"setup:{type(e).__name__}"
        out["digest"] = "setup-failed"
        return out
    C = out["counters"]
    exc = world.run()
    if isinstance(exc, LeaspyConvergenceError):
        C["abort.convergence_error"] += 1
    elif exc is not None:
        out["discarded"] = f"fit_raised:{type(exc).__name__}"
    C[f"model.{cfg['kind']}"] += 1
    key = (cfg["kind"], cfg["n"], cfg["max_visits"], cfg["missing"], cfg["n_iter"], cfg.get("n_burn_in_iter"), cfg.get("n_burn_in_iter_frac"),
           cfg["sampler_pop"], sorted(cfg["decisions"].items()))
    out["keys"].add("run:" + hashlib.sha1(repr(key).encode()).hexdigest()[:16])
    out["nontrivial"] = C["probe.update_in_burn_in"] + C["probe.update_after_burn_in"] > 0
    out["digest"] = log.digest()
    out["sample"] = {k: v for k, v in cfg.items() if k != "gseed"}
    out["virtual_s"] = world.clock.now - 1_700_000_000.0
    return out


def shrink(plan: dict):
    w = plan["world"]
    for n in sorted({1, 2, 3, w["n_iter"] // 2, w["n_iter"] - 1}):
        if 1 <= n < w["n_iter"]:
            p = copy.deepcopy(plan)
            p["world"]["n_iter"] = n
            p["world"]["decisions"] = {k: v for k, v in w["decisions"].items() if int(k) <= n}
            yield p
    if w["decisions"]:
        p = copy.deepcopy(plan)
        p["world"]["decisions"] = {}
        yield p
    for key, simple in (("whole_ft", False), ("n", 3), ("max_visits", 2), ("sampler_pop", "Gibbs"), ("missing", 0.15)):
        if w.get(key) != simple:
            p = copy.deepcopy(plan)
            p["world"][key] = simple
            yield p
