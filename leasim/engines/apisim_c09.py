"""C09 — individual trajectories follow the documented closed form (reference model of the estimate operation)."""
from __future__ import annotations

import copy
import hashlib

import numpy as np
import pandas as pd
import torch

from ..core import workload
from ..core.driver import EventLog, ddmin_list, new_outcome, violation
from ..core.rng import SimRng, Stream
from . import apisim_common as ac

PROPERTY = "C09"
TIERS = {
    "quick": {"runs": 3000, "budget_s": 110, "chunk": 8},
    "thorough": {"runs": 20000, "budget_s": 900, "chunk": 16},
}
REQUIRED_PROBES = {
    "quick": ["probe.multiindex_request", "probe.dict_request", "probe.repeated_age", "probe.unsorted_ages", "probe.far_extrapolation"],
    "thorough": ["probe.multiindex_request", "probe.dict_request", "probe.repeated_age", "probe.unsorted_ages", "probe.far_extrapolation",
                 "probe.single_age", "probe.reference_time_checked", "probe.monotone_checked", "probe.after_fit_model", "probe.individuals_reordered", "probe.parameters_updated_in_place"],
}
DESCRIBE = {
    "rule": "one case = one model (hand-written parameters loaded through BaseModel.load, or freshly fitted) and a seeded sequence of 2-8 estimate / "
            "compute_individual_trajectory operations with generated requests (dict and MultiIndex forms, unsorted, repeated, single ages, +-60 years extrapolation, "
            "individuals in any order, to_dataframe forced either way); each answer is compared with the float64 closed form and with the requested layout; "
            "distinct = digest of (model kind, request shapes); non-trivial = at least one repeated / unsorted / extrapolated request",
    "distinct_measure": "digest of (model kind, sequence of (form, ids order, ages pattern))",
    "real": ["BaseModel.estimate, McmcSaemCompatibleModel.compute_individual_trajectory (State clone + DAG evaluation)", "BaseModel.load / model_factory", "IndividualParameters"],
    "stub": ["nothing random is involved; fitted models use the real fit with a fixed seed"],
    "assumptions": ["tolerance 2e-5 absolute on [0,1] scales (float32 state vs float64 closed form); monotonicity up to 1e-6",
                    "the mixing matrix is re-derived with the documented Householder construction", "joint model: feature columns only (the event column is not part of C09)"],
}
KINDS = ["logistic_scalar", "logistic_diag", "logistic_diag_nosrc", "logistic_uni", "logistic_binary", "linear_diag", "linear_scalar", "linear_uni",
         "shared_speed", "shared_speed_nosrc", "joint_uni", "joint_multi", "joint_ev2"]


def make_plan(seed: int, tier: str) -> dict:
    rng = SimRng(seed)
    st = rng.stream("plan")
    kind = st.choice(KINDS)
    nf = st.choice([2, 3, 4]) if not workload.kind_info(kind)["uni"] else 1
    n_ids = st.randint(1, 5)
    id_style = st.choice(["S", "S", "num", "mixed"])
    ids = [f"S{i}" if id_style == "S" else (str(100 + i) if id_style == "num" else (f"p-{i}" if i % 2 else str(i))) for i in range(n_ids)]
    fitted = st.bernoulli(0.12)
    plan = {"seed": seed, "tier": tier, "engine": "apisim_c09", "kind": kind, "nf": nf, "ids": ids, "fitted": fitted,
            "mseed": st.u64() & 0xFFFFFFFF, "ops": []}
    for _ in range(st.randint(2, 8)):
        if plan["ops"] and st.bernoulli(0.15):
            # the parameters of the live model object are replaced (documented: load_parameters "instantiate or update"):
            # later estimates must follow the new parameters
            plan["ops"].append({"form": "update_parameters", "pseed": st.randint(0, 10 ** 6), "req": {}, "order": [], "to_dataframe": None, "interleave": False})
            continue
        form = st.choice(["dict", "dict", "multiindex", "multiindex", "trajectory"])
        k_ids = st.randint(1, n_ids)
        sel = st.sample(ids, k_ids)
        req = {}
        for pid in sel:
            style = st.choice(["sorted", "unsorted", "repeated", "single", "far", "mixed"])
            n_a = 1 if style == "single" else st.randint(2, 6)
            ages = [round(st.uniform(55, 95), st.choice([0, 1, 3])) for _ in range(n_a)]
            if style == "sorted":
                ages = sorted(ages)
            elif style == "repeated":
                ages = ages + [ages[0]] + ([ages[-1]] if st.bernoulli(0.5) else [])
                ages = st.shuffle(ages)
            elif style == "far":
                ages = [round(st.uniform(5, 20), 1), round(st.uniform(130, 160), 1)] + ages
            elif style == "mixed":
                ages = st.shuffle(ages + [ages[0], 12.0, 140.0])
            req[pid] = {"ages": ages, "style": style}
        tdf = st.choice([None, None, True, False])
        if kind.startswith("joint") and st.bernoulli(0.85):
            # (frame output of the joint model is a recorded finding: keep most joint requests on the dict path)
            form = "dict" if form == "multiindex" else form
            tdf = st.choice([None, False])
        plan["ops"].append({"form": form, "req": req, "order": sel, "to_dataframe": tdf, "interleave": st.bernoulli(0.3)})
    # time axis "years since baseline" (drawn last): reference times around 0, requested ages around 0 and exactly 0.0 among them
    if not fitted and st.bernoulli(0.25):
        plan["axis"] = "since_baseline"
        for op in plan["ops"]:
            for pid, r in op["req"].items():
                r["ages"] = [round(a - 72.0, 3) for a in r["ages"]]
                if st.bernoulli(0.6):
                    r["ages"][st.randint(0, len(r["ages"]) - 1)] = 0.0
    return plan


def build_model(plan):
    kind, nf = plan["kind"], plan["nf"]
    st = Stream(plan["mseed"], "model")
    if not plan["fitted"]:
        settings = ac.handwritten_settings(st, kind, nf)
        if plan.get("axis") == "since_baseline":
            settings["parameters"]["tau_mean"] = [round(settings["parameters"]["tau_mean"][0] - 70.0, 4)]
        model = ac.load_from_settings(settings)
        params = settings["parameters"]
    else:
        with ac.quiet():
            df = workload.make_cohort(st, kind=kind, n=5, n_features=nf, max_visits=3)
            data = workload.to_data(df, kind)
            model = workload.make_model(kind, nf)
            model.fit(data, "mcmc_saem", n_iter=4, seed=1, progress_bar=False)
        params = {k: v.tolist() for k, v in model.parameters.items()}
    ns = model.source_dimension or 0
    ip, vals = ac.individual_parameters(Stream(plan["mseed"], "ips"), kind, params, plan["ids"], ns)
    return model, params, ip, vals


def run_plan(plan: dict) -> dict:
    out = new_outcome(plan)
    log = EventLog()
    torch.set_num_threads(1)
    C = out["counters"]
    try:
        model, params, ip, vals = build_model(plan)
    except Exception as e:
        out["discarded"] = f"setup:{type(e).__name__}"
        out["digest"] = "setup-failed"
        return out
    kind = plan["kind"]
    info = workload.kind_info(kind)
    nfeat = plan["nf"] if not info["uni"] else 1
    if plan["fitted"]:
        C["probe.after_fit_model"] += 1
    if plan.get("axis") == "since_baseline":
        C["probe.time_axis_since_baseline"] += 1
        if any(a == 0.0 for op in plan["ops"] for r in op["req"].values() for a in r["ages"]):
            C["probe.age_exactly_zero"] += 1
    C[f"model.{kind}"] += 1
    keyparts = []

    def expected(pid, ages):
        v = vals[pid]
        return ac.ref_trajectory(kind, params, ages, v["xi"], v["tau"], v.get("sources"))

    def check_values(pid, ages, got, where):
        got = np.asarray(got, dtype=np.float64)
        exp = expected(pid, ages)
        if got.shape[0] != len(ages):
            violation(out, "layout", f"number_of_rows:{where.split(':')[0]}", f"{where}: {pid}: {got.shape[0]} rows for {len(ages)} requested ages")
            return
        g = got[:, :nfeat]
        if g.shape != exp.shape:
            violation(out, "layout", f"shape:{where.split(':')[0]}", f"{where}: {pid}: shape {got.shape} expected {exp.shape}")
            return
        if not np.allclose(g, exp, rtol=1e-4, atol=2e-5):
            # is it the right curve at permuted / de-duplicated ages?
            srt = expected(pid, sorted(ages))
            cls = "values_in_sorted_order" if np.allclose(g, srt, rtol=1e-4, atol=2e-5) else "wrong_curve"
            violation(out, "closed_form", f"{cls}:{info['family']}", f"{where}: {pid} ages {ages[:5]}: got {g[:3].tolist()} expected {exp[:3].tolist()}")
            return
        if info["family"] in ("logistic", "shared_speed_logistic", "joint"):
            if (g < -1e-7).any() or (g > 1 + 1e-7).any():
                violation(out, "range", f"outside_unit_interval:{info['family']}", f"{where}: {pid}")
            order = np.argsort(ages, kind="stable")
            gs = g[order]
            C["probe.monotone_checked"] += 1
            if (np.diff(gs, axis=0) < -1e-6).any():
                violation(out, "range", f"not_monotone:{info['family']}", f"{where}: {pid}")

    for oi, op in enumerate(plan["ops"]):
        form = op["form"]
        if form == "update_parameters":
            new_settings = ac.handwritten_settings(Stream(op["pseed"], "update"), kind, plan["nf"])
            try:
                with ac.quiet():
                    model.load_parameters(ac.copy_settings(new_settings)["parameters"])
            except Exception as e:
                violation(out, "completes", f"load_parameters_raised:{type(e).__name__}", f"op{oi}: {e}")
                break
            params.clear()
            params.update(new_settings["parameters"])
            C["probe.parameters_updated_in_place"] += 1
            log.add("update_parameters", oi)
            C["fault.parameters_replaced_on_the_live_object"] += 1
            keyparts.append("update_parameters")
            continue
        req = {pid: r["ages"] for pid, r in op["req"].items()}
        styles = [r["style"] for r in op["req"].values()]
        for s in styles:
            C[{"repeated": "probe.repeated_age", "unsorted": "probe.unsorted_ages", "far": "probe.far_extrapolation", "single": "probe.single_age",
               "mixed": "probe.repeated_age", "sorted": "probe.sorted_ages"}[s]] += 1
        if op["order"] != [p for p in plan["ids"] if p in op["order"]]:
            C["probe.individuals_reordered"] += 1
        where = f"{form}:op{oi}"
        keyparts.append(f"{form}/{len(req)}/{','.join(styles)}/{op['to_dataframe']}")
        try:
            with ac.quiet():
                if form == "trajectory":
                    pid = op["order"][0]
                    got = model.compute_individual_trajectory(req[pid], ip[pid])
                    log.add("traj", pid, len(req[pid]))
                    if got.shape[0] != 1:
                        violation(out, "layout", "trajectory_leading_dim", f"{where}: {tuple(got.shape)}")
                    else:
                        check_values(pid, req[pid], got[0].numpy(), where)
                    continue
                if form == "dict":
                    C["probe.dict_request"] += 1
                    timepoints = {pid: req[pid] for pid in op["order"]}
                    res = model.estimate(timepoints, ip, to_dataframe=op["to_dataframe"])
                else:
                    C["probe.multiindex_request"] += 1
                    tuples = [(pid, a) for pid in op["order"] for a in req[pid]]
                    if op["interleave"]:
                        tuples = Stream(plan["seed"], "interleave", oi).shuffle(tuples)
                    ix = pd.MultiIndex.from_tuples(tuples, names=["ID", "TIME"])
                    if Stream(plan["seed"], "levels", oi).bernoulli(0.3):
                        # the index levels are named: (TIME, ID) is the same request as (ID, TIME)
                        ix = pd.MultiIndex.from_tuples([(a, pid_) for pid_, a in tuples], names=["TIME", "ID"])
                        C["probe.multiindex_levels_time_first"] += 1
                    res = model.estimate(ix, ip, to_dataframe=op["to_dataframe"])
        except Exception as e:
            wants_df = op["to_dataframe"] if op["to_dataframe"] is not None else (form == "multiindex")
            violation(out, "completes", f"estimate_raised:{info['family']}:{'dataframe' if wants_df else 'dict'}_output:{type(e).__name__}",
                      f"{where}: {type(e).__name__}: {e}")
            continue
        log.add("estimate", form, len(req), op["to_dataframe"])
        want_df = op["to_dataframe"] if op["to_dataframe"] is not None else (form == "multiindex")
        if want_df != isinstance(res, pd.DataFrame):
            violation(out, "layout", f"return_type:{form}", f"{where}: got {type(res).__name__}")
            continue
        if isinstance(res, pd.DataFrame):
            if form == "multiindex":
                # exactly the requested index, in the requested order
                if len(res) != len(ix) or list(res.index) != list(ix):
                    has_dup = len(set(tuples)) < len(tuples)
                    cls = "rows_multiplied_for_repeated_ages" if len(res) > len(ix) and has_dup else \
                        ("rows_missing" if len(res) < len(ix) else "index_order")
                    violation(out, "layout", f"dataframe_index:{cls}", f"{where}: {len(res)} rows for {len(ix)} requested; first {list(res.index)[:4]} vs {list(ix)[:4]}")
                    continue
                for pid in op["order"]:
                    pos = [i for i, t in enumerate(tuples) if t[0] == pid]
                    check_values(pid, [tuples[i][1] for i in pos], res.iloc[pos].values, where)
            else:
                ids_got = list(dict.fromkeys(res.index.get_level_values(0)))
                if ids_got != list(op["order"]):
                    violation(out, "layout", "dataframe_ids_order:dict", f"{where}: {ids_got} vs {op['order']}")
                    continue
                for pid in op["order"]:
                    sub = res.xs(pid, level=0) if hasattr(res.index, "levels") else res
                    if list(sub.index) != list(req[pid]):
                        violation(out, "layout", "dataframe_ages:dict", f"{where}: {pid}: {list(sub.index)[:6]} vs {req[pid][:6]}")
                        continue
                    check_values(pid, req[pid], sub.values, where)
            if list(res.columns)[:nfeat] != list(model.features)[:nfeat] and info["family"] != "joint":
                violation(out, "layout", "dataframe_columns", f"{where}: {list(res.columns)}")
        else:
            # (for an index request answered as a dict the key order is not part of the request: compare as sets)
            if (list(res.keys()) != list(op["order"])) if form == "dict" else (set(res.keys()) != set(op["order"]) or len(res) != len(op["order"])):
                violation(out, "layout", f"dict_keys:{form}", f"{where}: {list(res.keys())} vs {op['order']}")
                continue
            for pid in op["order"]:
                ages = req[pid] if form == "dict" else [a for (p, a) in tuples if p == pid]
                if form == "multiindex" and op["interleave"]:
                    # dict output of an index request: ages of one individual in index order
                    pass
                check_values(pid, ages, res[pid], where)
    # reference time: an unshifted individual sits at 1/(1+g) at t = tau
    if info["family"] in ("logistic", "joint") and not out["violations"]:
        pid = plan["ids"][0]
        v = vals[pid]
        ipz = {"xi": v["xi"], "tau": v["tau"]}
        if "sources" in v:
            ipz["sources"] = [0.0] * len(v["sources"])
        with ac.quiet():
            got = model.compute_individual_trajectory([v["tau"]], ipz)[0, 0].numpy()[:nfeat]
        g = np.exp(np.asarray(params["log_g_mean"], dtype=np.float64))
        C["probe.reference_time_checked"] += 1
        if not np.allclose(got, 1 / (1 + g), atol=2e-5):
            violation(out, "closed_form", "reference_time_value", f"{got.tolist()} vs {(1 / (1 + g)).tolist()}")
    out["keys"].add("run:" + hashlib.sha1(("|".join(keyparts) + kind).encode()).hexdigest()[:16])
    out["nontrivial"] = C["probe.repeated_age"] + C["probe.unsorted_ages"] + C["probe.far_extrapolation"] > 0
    out["digest"] = log.digest()
    out["sample"] = {"kind": kind, "nf": plan["nf"], "fitted": plan["fitted"], "ops": [{"form": o["form"], "req": {p: r["ages"] for p, r in o["req"].items()},
                                                                                     "to_dataframe": o["to_dataframe"]} for o in plan["ops"][:3]]}
    return out


def shrink(plan: dict):
    for cand in ddmin_list(plan["ops"]):
        if cand:
            p = dict(plan)
            p["ops"] = cand
            yield p
    for i, op in enumerate(plan["ops"]):
        if len(op["req"]) > 1:
            for pid in list(op["req"]):
                p = copy.deepcopy(plan)
                del p["ops"][i]["req"][pid]
                p["ops"][i]["order"] = [x for x in op["order"] if x != pid]
                yield p
        for pid, r in op["req"].items():
            if len(r["ages"]) > 1:
                for j in range(len(r["ages"])):
                    p = copy.deepcopy(plan)
                    del p["ops"][i]["req"][pid]["ages"][j]
                    yield p
        if op.get("interleave"):
            p = copy.deepcopy(plan)
            p["ops"][i]["interleave"] = False
            yield p
    if plan["fitted"]:
        p = copy.deepcopy(plan)
        p["fitted"] = False
        yield p
