"""C08 — likelihood terms are the negative log-densities of the documented distributions.

Claimed as a run-time invariant over the states the simulated system visits: a fitsim monitor on every
iteration of real fits, plus a stepsim leg whose served proposals drive individual time shifts / accelerations
into the tails (events before the reference time, saturated curves).
"""
from __future__ import annotations

import copy
import hashlib
import warnings

import numpy as np
import torch

from ..core import workload
from ..core.driver import EventLog, ddmin_list, new_outcome, violation
from ..core.rng import SimRng
from ..ref import bridge, refmath as rm
from . import fitsim, stepsim

PROPERTY = "C08"
TIERS = {
    "quick": {"runs": 1200, "budget_s": 110, "chunk": 4},
    "thorough": {"runs": 12000, "budget_s": 900, "chunk": 8},
}
REQUIRED_PROBES = {
    "quick": ["probe.terms_checked", "probe.event_before_reference_time", "probe.censored_and_observed_present"],
    "thorough": ["probe.terms_checked", "probe.event_before_reference_time", "probe.censored_and_observed_present", "probe.bernoulli_checked",
                 "probe.gaussian_scalar_checked", "probe.gaussian_diagonal_checked", "probe.weibull_with_sources_checked", "probe.penalty_finite_checked"],
}
DESCRIBE = {
    "rule": "fit plans: one whole real fit (2-25 iterations) per seeded model kind / cohort, every attachment and regularity term of the state recomputed entry by entry in float64 "
            "after every iteration; tail plans: 3-12 real individual sampler steps whose served proposals (5-sigma, +-50 years on tau, saturating xi) are inspected between proposal and decision; "
            "distinct = configuration digest; non-trivial = at least one state was compared",
    "distinct_measure": "digest of (type, model kind, cohort shape, n_iter / steps, decisions)",
    "real": ["variables.distributions (Normal, Bernoulli, WeibullRightCensored[WithSources] families)", "obs_models, joint model likelihood graph", "State, samplers, fit loop"],
    "stub": ["randn / rand / shuffle served", "clock virtual", "stdout captured"],
    "assumptions": ["float64 closed forms vs float32 state: rtol 2e-4 (+ forward error bound for saturated Bernoulli terms)",
                    "only the broadcasting layouts the shipped models produce in runs are covered", "mixture model not covered"],
}


def make_plan(seed: int, tier: str) -> dict:
    rng = SimRng(seed)
    st = rng.stream("plan")
    if st.bernoulli(0.5):
        cfg = fitsim.gen_fit_cfg(rng.stream("world"), max_iter=8 if tier == "quick" else 25)
        return {"seed": seed, "tier": tier, "engine": "fitsim_c08", "type": "fit", "world": cfg}
    kinds = ["joint_uni", "joint_multi", "joint_nosrc", "joint_ev2", "joint_ev2", "joint_ev2_nosrc", "logistic_binary", "logistic_diag", "linear_scalar", "shared_speed"]
    cfg = stepsim.gen_world_cfg(rng.stream("world"), kinds=kinds)
    steps = []
    for i in range(st.randint(3, 8 if tier == "quick" else 12)):
        steps.append({"sel": st.randint(0, 7), "ind": True, "t_inv": 1.0,
                      "proposal": st.choice(["tail", "huge", "huge_one", "ordinary"]), "huge_scale": st.choice([8.0, 20.0, 40.0]),
                      "tail_scale": 5.0, "decision": st.choice(["natural", "accept_all", "random"]), "foreign": "none", "order": "seeded"})
    if st.bernoulli(0.2):
        cfg["unit_scale_param"] = st.choice(["tau_std", "xi_std", "noise_std"])
    return {"seed": seed, "tier": tier, "engine": "fitsim_c08", "type": "tail", "world": cfg, "steps": steps}


def wv(t):
    return t.weighted_value if hasattr(t, "weight") else t


def compare_state(kind, variables, indep, reader, pop_names, ind_names, out, where, C):
    """Compare every likelihood term readable through `reader(name)` with its float64 closed form."""
    info = workload.kind_info(kind)
    if not bridge.within_float32_exp_range(indep, list(pop_names) + list(ind_names)):
        C["skip.float32_exp_range"] += 1
        return
    try:
        rt = bridge.ref_terms(kind, variables, indep, pop_names, ind_names)
    except Exception as e:
        C["skip.refmath_error:" + type(e).__name__] += 1
        return
    C["probe.terms_checked"] += 1
    ref = rm.info_for_kind(info)
    C[{"bernoulli": "probe.bernoulli_checked", "gaussian-scalar": "probe.gaussian_scalar_checked", "gaussian-diagonal": "probe.gaussian_diagonal_checked"}[ref.obs]] += 1
    names = []
    if info["event"]:
        names += [("nll_attach_y_ind", "nll_attach_y_ind", rt["nll_attach_ind_tol"]), ("nll_attach_event_ind", "nll_attach_event_ind", None)]
        if info["sources"]:
            C["probe.weibull_with_sources_checked"] += 1
        eb = rm.weights(indep["event"])
        if (eb > 0).any() and (eb == 0).any():
            C["probe.censored_and_observed_present"] += 1
        rep = rm.f64(indep["event"]) - rm.f64(indep["tau"])
        if (rep < 0).any():
            C["probe.event_before_reference_time"] += 1
            # prohibitive finite penalty, never NaN or infinity
            got = wv(reader("nll_attach_event_ind")).double().reshape(-1)
            obs_before = ((rep < 0) & (eb > 0)).any(axis=1)
            fin_inputs = np.isfinite(rm.f64(indep["xi"])).all() and np.isfinite(rm.f64(indep["tau"])).all()
            if fin_inputs:
                C["probe.penalty_finite_checked"] += 1
                g = got.numpy()
                if not np.isfinite(g[obs_before]).all():
                    violation(out, "early_event_penalty", "penalty_not_finite", f"{where}: {g[obs_before][:4].tolist()}")
                elif not (g[obs_before] >= 1e300).all():
                    violation(out, "early_event_penalty", "penalty_not_prohibitive", f"{where}: {g[obs_before][:4].tolist()}")
    names += [("nll_attach_ind", "nll_attach_ind", rt["nll_attach_ind_tol"])]
    for nm in pop_names:
        names.append((f"nll_regul_{nm}", f"nll_regul_{nm}", None))
    for nm in ind_names:
        names.append((f"nll_regul_{nm}_ind", f"nll_regul_{nm}_ind", None))
    for state_name, ref_name, tol in names:
        try:
            got = wv(reader(state_name))
        except Exception as e:
            C["skip.read_error:" + type(e).__name__] += 1
            continue
        exp = np.asarray(rt[ref_name], dtype=np.float64)
        if not np.isfinite(exp).all():
            # extreme state: only demand agreement on which entries are finite, and on those
            g = rm.f64(got).reshape(-1)
            e = exp.reshape(-1)
            if g.shape != e.shape:
                violation(out, "term_value", f"{_generic(state_name, pop_names, ind_names)}:shape", f"{where}: {state_name}")
                continue
            fin = np.isfinite(e)
            if not bridge.close64(g[fin], e[fin], rtol=2e-4, atol=1e-3):
                violation(out, "term_value", f"{_generic(state_name, pop_names, ind_names)}:{rm.info_for_kind(info).obs}", f"{where}: {state_name}: {g[:4].tolist()} vs {e[:4].tolist()}")
            continue
        if not bridge.close64(got, exp, rtol=2e-4, atol=1e-3, extra_atol=tol):
            violation(out, "term_value", f"{_generic(state_name, pop_names, ind_names)}:{ref.obs if 'attach' in state_name else 'normal_prior'}",
                      f"{where}: {state_name}: state {rm.f64(got).reshape(-1)[:4].tolist()} vs closed form {exp.reshape(-1)[:4].tolist()}")


def _generic(name, pop_names, ind_names):
    if name.startswith("nll_regul_"):
        return "nll_regul_ind" if name.endswith("_ind") else "nll_regul_pop"
    return name


class C08Monitor(fitsim.Monitor):
    def __init__(self, out, cfg):
        self.out = out
        self.cfg = cfg
        self.C = out["counters"]

    def after_iteration(self, w, k):
        indep = w.read_indep()
        compare_state(self.cfg["kind"], w.state.dag.variables, indep, lambda n: w.state[n], w.pop_names(), w.ind_names(), self.out,
                      f"k={k} kind={self.cfg['kind']}", self.C)


def run_plan(plan: dict) -> dict:
    from leaspy.exceptions import LeaspyConvergenceError

    out = new_outcome(plan)
    log = EventLog()
    torch.set_num_threads(1)
    cfg = plan["world"]
    C = out["counters"]
    C["type." + plan["type"]] += 1
    if plan["type"] == "fit":
        mon = C08Monitor(out, cfg)
        try:
            world = fitsim.FitWorld(cfg, log, C, [mon])
        except Exception as e:
            out["discarded"] = f"setup:{type(e).__name__}"
            out["digest"] = "setup-failed"
            return out
        exc = world.run()
        if isinstance(exc, LeaspyConvergenceError):
            C["abort.convergence_error"] += 1
        elif exc is not None:
            out["discarded"] = f"fit_raised:{type(exc).__name__}"
        key = ("fit", cfg["kind"], cfg["n"], cfg["max_visits"], cfg["missing"], cfg["n_iter"], cfg["sampler_pop"], sorted(cfg["decisions"].items()))
        out["virtual_s"] = world.clock.now - 1_700_000_000.0
    else:
        try:
            world = stepsim.StepWorld(cfg, log, C)
        except Exception as e:
            out["discarded"] = f"setup:{type(e).__name__}"
            out["digest"] = "setup-failed"
            return out
        pat = []
        with world.installed(), warnings.catch_warnings():
            warnings.simplefilter("ignore")
            for si, step in enumerate(plan["steps"]):
                var = world.ind_names[step["sel"] % len(world.ind_names)]
                rec = world.sample(var, 1.0, step)
                if rec.error:
                    C["abort.sampler_raised"] += 1
                    break
                C["steps.sample"] += 1
                # the proposed state (between proposal and decision), re-evaluated from scratch
                for b in rec.blocks:
                    ind = dict(rec.pre_indep)
                    ind[var] = b.post_value
                    ev = world.evaluator(ind)

                    def reader(n, ev=ev):
                        return ev.value(n)

                    compare_state(cfg["kind"], world.variables, ind, reader, world.pop_names, world.ind_names, out,
                                  f"step{si}:{var}:proposed:{step['proposal']}", C)
                # and the state after the decision, as cached
                compare_state(cfg["kind"], world.variables, world.read_indep(), lambda n: world.state[n], world.pop_names, world.ind_names, out,
                              f"step{si}:{var}:after", C)
                pat.append(f"{var}/{step['proposal']}")
                if out["violations"]:
                    break
        key = ("tail", cfg["kind"], cfg["n"], cfg["max_visits"], cfg["missing"], tuple(pat))
    C[f"model.{cfg['kind']}"] += 1
    out["keys"].add("run:" + hashlib.sha1(repr(key).encode()).hexdigest()[:16])
    out["nontrivial"] = C["probe.terms_checked"] > 0
    out["digest"] = log.digest()
    out["sample"] = {"type": plan["type"], "world": {k: v for k, v in cfg.items() if k != "gseed"}, "steps": plan.get("steps", [])[:6]}
    return out


def shrink(plan: dict):
    if plan["type"] == "tail":
        for cand in ddmin_list(plan["steps"]):
            if cand:
                p = dict(plan)
                p["steps"] = cand
                yield p
        return
    w = plan["world"]
    for n in sorted({1, 2, 3, w["n_iter"] // 2, w["n_iter"] - 1}):
        if 1 <= n < w["n_iter"]:
            p = copy.deepcopy(plan)
            p["world"]["n_iter"] = n
            p["world"]["decisions"] = {k: v for k, v in w["decisions"].items() if int(k) <= n}
            yield p
    for key, simple in (("whole_ft", False), ("n", 3), ("max_visits", 2), ("sampler_pop", "Gibbs"), ("missing", 0.0)):
        if w.get(key) != simple:
            p = copy.deepcopy(plan)
            p["world"][key] = simple
            yield p
