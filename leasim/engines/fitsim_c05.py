"""C05 — sufficient statistics follow the stochastic-approximation schedule (fitsim)."""
from __future__ import annotations

import copy
import hashlib
import math
from decimal import Decimal

import torch

from ..core.driver import EventLog, new_outcome, tdigest, violation
from ..core.rng import SimRng
from . import fitsim

PROPERTY = "C05"
TIERS = {
    "quick": {"runs": 1200, "budget_s": 110, "chunk": 4},
    "thorough": {"runs": 12000, "budget_s": 900, "chunk": 8},
}
REQUIRED_PROBES = {
    "quick": ["probe.first_iteration_after_burn_in", "probe.memory_phase_blend", "probe.power_refused"],
    "thorough": ["probe.first_iteration_after_burn_in", "probe.memory_phase_blend", "probe.power_refused", "probe.burn_in_whole_run",
                 "probe.no_burn_in", "probe.explicit_count", "probe.fraction"],
}
DESCRIBE = {
    "rule": "one case = one whole real fit (1-40 iterations) of a seeded model kind / cohort under a seeded configuration "
            "(n_iter, burn-in fraction or explicit count incl. 0, n-1, n, n+3, step power valid or invalid) with served random draws and forced "
            "acceptance phases; every _maximization_step is compared with the reference Robbins-Monro recursion; distinct = (n_iter, burn-in setting, power, model kind, decision plan) digest; "
            "non-trivial = the memory phase or a refusal was reached",
    "distinct_measure": "digest of (n_iter, burn-in spec, power, model kind, sampler, decisions)",
    "real": ["TensorMcmcSaemAlgorithm (constructor, run loop, _maximization_step)", "AlgorithmWithSamplersMixin burn-in derivation", "model.compute_sufficient_statistics / update_parameters",
             "samplers, State, all model kinds except mixture (quick)"],
    "stub": ["randn / rand / shuffle served by the simulator", "wall clock virtual", "stdout captured"],
    "assumptions": ["derived burn-in length: the explicit count, else the largest integer not exceeding frac*n_iter computed exactly in decimal; a 1-ulp float disagreement "
                    "(e.g. 0.29*100) is accepted either way (stated narrowing)",
                    "blend compared on values under weights with rtol 1e-5 (float32 arithmetic of the harness)",
                    "a LeaspyConvergenceError (collapsed variance) ends the run legitimately"],
}

INVALID_POWERS = [0.5, 0.3, 1.01, 0.0, -1.0, float("nan"), 2]


def make_plan(seed: int, tier: str) -> dict:
    rng = SimRng(seed)
    st = rng.stream("plan")
    cfg = fitsim.gen_fit_cfg(rng.stream("world"), max_iter=12 if tier == "quick" else 40, allow_mixture=True)
    cfg["n_iter"] = st.randint(1, 12 if tier == "quick" else 40)
    n_iter = cfg["n_iter"]
    cfg.pop("n_burn_in_iter", None)
    mode = st.choice(["frac", "frac", "count"])
    if mode == "frac":
        cfg["n_burn_in_iter_frac"] = st.choice([0.0, 0.1, 0.29, 0.5, 0.9, 1.0, round(st.uniform(0, 1), 3)])
    else:
        cfg["n_burn_in_iter"] = st.choice([0, 1, max(n_iter - 1, 0), n_iter, n_iter + 3, st.randint(0, n_iter)])
        cfg["n_burn_in_iter_frac"] = st.choice([None, 0.9])
    if st.bernoulli(0.12):
        cfg["burn_in_step_power"] = st.choice(INVALID_POWERS)
    else:
        cfg["burn_in_step_power"] = st.choice([0.8, 1.0, 0.5000001, 0.65, round(st.uniform(0.51, 1.0), 3)])
    cfg["decisions"] = {k: v for k, v in cfg["decisions"].items() if int(k) <= n_iter}
    if cfg.get("n_burn_in_iter") is not None and not cfg.get("annealing") and st.bernoulli(0.3):
        cfg["via_load_parameters"] = True
    elif st.bernoulli(0.2):
        cfg["second_run"] = True
    ann = cfg.get("annealing")
    if ann:
        # (n_iter was re-drawn above) keep the tempered configuration admissible: at least n_plateau - 1 annealing iterations
        n_ann = int(ann["n_iter_frac"] * n_iter)
        if n_ann < 1:
            cfg.pop("annealing")
        else:
            ann["n_plateau"] = max(2, min(ann["n_plateau"], n_ann + 1))
    return {"seed": seed, "tier": tier, "engine": "fitsim_c05", "world": cfg}


def expected_burn_in(cfg):
    """(set of admissible values) for the derived length of the memory-less phase."""
    if cfg.get("n_burn_in_iter") is not None:
        return {int(cfg["n_burn_in_iter"])}
    frac = cfg["n_burn_in_iter_frac"]
    exact = int(Decimal(str(frac)) * cfg["n_iter"])  # largest integer not exceeding frac*n_iter (exact decimal product)
    flt = int(frac * cfg["n_iter"])
    return {exact, flt}


def wv(t):
    return t.weighted_value if hasattr(t, "weight") else t


class C05Monitor(fitsim.Monitor):
    def __init__(self, out, cfg):
        self.out = out
        self.cfg = cfg
        self.S_prev = None
        self.s_k = None
        self.flag = None
        self.S_used = None
        self.n_b = None
        self.C = out["counters"]

    def on_start(self, w):
        nb = w.algo.algo_parameters["n_burn_in_iter"]
        self.n_b = nb
        adm = expected_burn_in(self.cfg)
        w.log.add("n_burn_in", nb)
        if nb not in adm:
            violation(self.out, "burn_in_length", f"derived_burn_in_length:{'count' if self.cfg.get('n_burn_in_iter') is not None else 'fraction'}",
                      f"n_iter={self.cfg['n_iter']} frac={self.cfg.get('n_burn_in_iter_frac')} count={self.cfg.get('n_burn_in_iter')} -> {nb}, admissible {sorted(adm)}")
        self.C["probe.explicit_count" if self.cfg.get("n_burn_in_iter") is not None else "probe.fraction"] += 1
        if nb >= self.cfg["n_iter"]:
            self.C["probe.burn_in_whole_run"] += 1
        if nb == 0:
            self.C["probe.no_burn_in"] += 1

    def before_mstep(self, w, k):
        self.S_prev = w.algo.sufficient_statistics
        self.s_k = None
        self.S_used = None

    def after_suffstats(self, w, k, s):
        self.s_k = dict(s)

    def before_update(self, w, k, S, burn_in):
        self.S_used = S
        self.flag = burn_in

    def after_mstep(self, w, k):
        out, C = self.out, self.C
        nb = min(expected_burn_in(self.cfg)) if self.n_b not in expected_burn_in(self.cfg) else self.n_b
        power = self.cfg["burn_in_step_power"]
        S_now = w.algo.sufficient_statistics
        C["steps.mstep"] += 1
        if self.s_k is None or self.S_used is None:
            violation(out, "harness", "mstep_without_suffstats_or_update", f"k={k}")
            return
        # the statistics used for the update are the algorithm's S_k
        if self.S_used is not S_now:
            same_content = set(self.S_used) == set(S_now) and all(torch.equal(wv(self.S_used[x]), wv(S_now[x])) for x in S_now)
            if not same_content:
                violation(out, "update_uses_S_k", "update_called_with_other_statistics", f"k={k}")
        # burn-in flag handed to the update rules
        if bool(self.flag) != (k <= nb):
            violation(out, "burn_in_flag", f"flag_{bool(self.flag)}_at_k_minus_nb_{k - nb}", f"k={k} n_burn_in={nb} flag={self.flag}")
        phase = "memoryless" if k <= nb + 1 else "memory"
        if k == nb + 1:
            C["probe.first_iteration_after_burn_in"] += 1
        if phase == "memory":
            C["probe.memory_phase_blend"] += 1
        e = None if phase == "memoryless" else float(k - nb) ** (-power)
        for key, cur in self.s_k.items():
            if key not in S_now:
                violation(out, "recursion", "statistic_missing", f"k={k}: {key}")
                continue
            got = wv(S_now[key]).double()
            c = wv(cur).double()
            if phase == "memoryless":
                exp = c
            else:
                if self.S_prev is None or key not in self.S_prev:
                    violation(out, "recursion", "no_previous_statistics_in_memory_phase", f"k={k}: {key}")
                    continue
                p = wv(self.S_prev[key]).double()
                exp = (1.0 - e) * p + e * c
            # forward error bound of the float32 blend (the two terms may cancel: e.g. nll_attach +5.67 and -5.68)
            if phase == "memoryless":
                bound = 1e-7 + 1e-6 * c.abs()
            else:
                bound = 1e-7 + 16 * 1.2e-7 * (((1.0 - e) * p).abs() + (e * c).abs()) + 1e-6 * exp.abs()
            ok = got.shape == exp.shape and bool((((got - exp).abs() <= bound) | (torch.isnan(got) & torch.isnan(exp)) | (got == exp)).all())
            if not ok:
                violation(out, "recursion", _classify(got, c, self.S_prev, key, k, nb, power, phase), f"k={k} n_b={nb} power={power} key={key}: "
                          f"got {got.reshape(-1)[:3].tolist()} expected {exp.reshape(-1)[:3].tolist()} current {c.reshape(-1)[:3].tolist()}")
                break
        w.log.add("S", k, hashlib.sha1("".join(tdigest(wv(S_now[x])) for x in sorted(S_now) if not x.startswith("nll_")).encode()).hexdigest()[:10])


def _classify(got, cur, S_prev, key, k, nb, power, phase):
    """Name the schedule that *does* explain the observed statistics (helps telling off-by-one from wrong exponent)."""
    if S_prev is None or key not in S_prev:
        return f"unexplained:{phase}"
    p = wv(S_prev[key]).double()
    cands = {}
    cands["memoryless_instead_of_blend"] = cur
    cands["kept_previous"] = p
    for name, step in (("k_minus_nb_plus_1", k - nb + 1), ("k_minus_nb_minus_1", k - nb - 1), ("k", k)):
        if step > 0:
            e = float(step) ** (-power)
            cands[f"step_uses_{name}"] = (1 - e) * p + e * cur
    if k - nb > 0:
        e = float(k - nb) ** (power)
        cands["positive_exponent"] = (1 - e) * p + e * cur
        e = float(k - nb) ** (-1.0)
        cands["power_ignored"] = (1 - e) * p + e * cur
        e = float(k - nb) ** (-power)
        cands["blend_during_memoryless"] = (1 - e) * p + e * cur
        cands["weights_swapped"] = e * p + (1 - e) * cur
    for name, v in cands.items():
        if v.shape == got.shape and torch.allclose(got, v, rtol=1e-5, atol=1e-7):
            return f"{name}:{phase}"
    return f"unexplained:{phase}"


def run_plan(plan: dict) -> dict:
    from leaspy.exceptions import LeaspyAlgoInputError, LeaspyConvergenceError

    out = new_outcome(plan)
    log = EventLog()
    torch.set_num_threads(1)
    cfg = plan["world"]
    mon = C05Monitor(out, cfg)
    try:
        world = fitsim.FitWorld(cfg, log, out["counters"], [mon])
    except Exception as e:
        out["discarded"] = f"setup:{type(e).__name__}"
        out["digest"] = "setup-failed"
        return out
    C = out["counters"]
    exc = world.run()
    power = cfg["burn_in_step_power"]
    valid_power = isinstance(power, (int, float)) and not math.isnan(power) and 0.5 < power <= 1
    if not valid_power:
        C["probe.power_refused"] += 1
        if not isinstance(exc, LeaspyAlgoInputError) or C["steps.mstep"] > 0:
            violation(out, "power_refusal", f"invalid_power_not_refused:{power}", f"power={power}: {type(exc).__name__ if exc else 'ran'}")
    elif isinstance(exc, LeaspyAlgoInputError) and "burn_in_step_power" in str(exc):
        violation(out, "power_refusal", f"valid_power_refused:{power}", str(exc)[:200])
    elif isinstance(exc, LeaspyAlgoInputError):
        # refused for another documented reason (e.g. an annealing configuration made inadmissible while shrinking): not about C05
        out["discarded"] = "refused_for_another_reason"
    elif isinstance(exc, LeaspyConvergenceError):
        C["abort.convergence_error"] += 1
    elif exc is not None:
        import traceback

        frames = [f.name for f in traceback.extract_tb(exc.__traceback__)]
        if frames and frames[-1] == "_maximization_step" or (len(frames) > 1 and frames[-2] == "_maximization_step" and frames[-1] in ("<dictcomp>", "<genexpr>", "<listcomp>")):
            # the schedule code itself failed (e.g. blending with statistics that do not exist yet)
            violation(out, "recursion", f"maximization_step_raised:{type(exc).__name__}", f"k={world.k}: {type(exc).__name__}: {exc}")
        else:
            # not attributable to C05 (another property's defect region): discard, counted
            out["discarded"] = f"fit_raised:{type(exc).__name__}"
    elif C["steps.mstep"] != cfg["n_iter"]:
        violation(out, "recursion", "number_of_maximisation_steps", f"{C['steps.mstep']} != {cfg['n_iter']}")
    elif cfg.get("second_run") and valid_power and not out["violations"] and not cfg.get("via_load_parameters"):
        # the same algorithm object run once more on a fresh model: the schedule starts over with it
        n_viol = len(out["violations"])
        mon2 = C05Monitor(out, cfg)
        world.monitors = [mon2]
        exc2 = world.run(rerun=True)
        C["probe.algorithm_object_run_twice"] += 1
        if isinstance(exc2, (fitsim.RerunSetupFailed, LeaspyConvergenceError)):
            C["skip.second_run_not_completed"] += 1
        for v in out["violations"][n_viol:]:
            v["sig"] = v["sig"] + ":second_run_of_the_same_algorithm_object"
    C[f"model.{cfg['kind']}"] += 1
    key = (cfg["n_iter"], cfg.get("n_burn_in_iter"), cfg.get("n_burn_in_iter_frac"), str(power), cfg["kind"], cfg["sampler_pop"], sorted(cfg["decisions"].items()))
    out["keys"].add("run:" + hashlib.sha1(repr(key).encode()).hexdigest()[:16])
    out["nontrivial"] = C["probe.memory_phase_blend"] > 0 or C["probe.power_refused"] > 0 or C["probe.first_iteration_after_burn_in"] > 0
    out["digest"] = log.digest()
    out["sample"] = {k: v for k, v in cfg.items() if k != "gseed"}
    out["virtual_s"] = world.clock.now - 1_700_000_000.0
    return out


def shrink(plan: dict):
    w = plan["world"]
    for n in sorted({1, 2, 3, w["n_iter"] // 2, w["n_iter"] - 1}):
        if 1 <= n < w["n_iter"]:
            p = copy.deepcopy(plan)
            p["world"]["n_iter"] = n
            p["world"]["decisions"] = {k: v for k, v in w["decisions"].items() if int(k) <= n}
            yield p
    if w["decisions"]:
        p = copy.deepcopy(plan)
        p["world"]["decisions"] = {}
        yield p
    for key, simple in (("missing", 0.0), ("whole_ft", False), ("n", 3), ("max_visits", 2), ("sampler_pop", "Gibbs"), ("kind", "logistic_uni")):
        if w.get(key) != simple:
            p = copy.deepcopy(plan)
            p["world"][key] = simple
            yield p
