"""C18 — simulation honours the requested design (gensim: real model.simulate with served numpy / beta draws)."""
from __future__ import annotations

import contextlib
import copy
import hashlib
import io
import math
import warnings

import numpy as np
import pandas as pd
import torch

from ..core import workload
from ..core.driver import EventLog, new_outcome, violation
from ..core.rng import SimRng, Stream
from ..core.seams import patched
from . import apisim_common as ac

PROPERTY = "C18"
TIERS = {
    "quick": {"runs": 6000, "budget_s": 110, "chunk": 10},
    "thorough": {"runs": 24000, "budget_s": 900, "chunk": 20},
}
REQUIRED_PROBES = {
    "quick": ["probe.random_design_completed", "probe.table_design_completed", "probe.invalid_design_refused", "probe.degenerate_draw_served"],
    "thorough": ["probe.random_design_completed", "probe.table_design_completed", "probe.invalid_design_refused", "probe.degenerate_draw_served",
                 "probe.duplicate_ages_after_rounding", "probe.variance_clamp_engaged", "probe.unsorted_table", "probe.zero_spacing_std"],
}
DESCRIBE = {
    "rule": "one case = one logistic model (hand-written parameters; 1-4 features, 0-2 sources, scalar / diagonal noise) + one visit design (random with generated means / deviations / "
            "minimum spacing, table-driven with string or integer ids, unsorted, repeated ages, one visit, one individual, or an invalid design) + the numpy-normal and beta draws served by the "
            "simulator (ordinary, or degenerate: non-positive spacing, identical ages after rounding, zero follow-up, first visit far from tau); distinct = digest of (model shape, design, fault plan); "
            "non-trivial = the design ran to completion and its Result was checked, or an invalid design was refused",
    "distinct_measure": "digest of (model shape, design kind and parameters, served-draw fault plan)",
    "real": ["SimulationAlgorithm (validation, visit generation, beta noise, rounding / de-duplication)", "BaseModel.simulate / estimate", "Data.from_dataframe, Result"],
    "stub": ["numpy.random.normal and scipy.stats.beta.rvs as seen from leaspy.algo.simulate.simulate (served by the simulator; the call counter is the witness of 'before anything is generated')"],
    "assumptions": ["bounded liveness: a valid random design must finish within 40 * (follow-up / mean spacing + 10) spacing draws per individual under ordinary draws",
                    "documented requirements = the types / signs listed in the class docstring and error messages (positive patient number, non-negative deviations and minimum spacing, "
                    "positive mean spacing, table with ID and non-null TIME, non-empty list of non-empty string features)"],
}


class BudgetExceeded(Exception):
    pass


class NpProxy:
    def __init__(self, world):
        self._w = world
        self.random = _RandomProxy(world)

    def __getattr__(self, name):
        return getattr(np, name)


class _RandomProxy:
    def __init__(self, world):
        self._w = world

    def normal(self, loc=0.0, scale=1.0, size=None):
        return self._w.on_normal(loc, scale, size)

    def __getattr__(self, name):
        return getattr(np.random, name)


class BetaProxy:
    def __init__(self, world):
        self._w = world

    def rvs(self, a, b, **kw):
        return self._w.on_beta(a, b)


class GenWorld:
    def __init__(self, plan, log, counters):
        self.plan = plan
        self.log = log
        self.C = counters
        self.n_normal = 0
        self.n_beta = 0
        self.scalar_draws = 0
        self.budget = plan.get("draw_budget", 100000)
        self.faults = plan.get("faults", {})
        self.first_visit_done = False

    def on_normal(self, loc, scale, size):
        self.n_normal += 1
        st = Stream(self.plan["gseed"], "normal", self.n_normal)
        if size is None:
            # the visit-spacing draw
            self.scalar_draws += 1
            if self.scalar_draws > self.budget:
                raise BudgetExceeded(f"{self.scalar_draws} spacing draws")
            z = st.normal()
            f = self.faults.get("spacing")
            if f == "nonpositive" and self.scalar_draws % 3 == 0:
                self.C["fault.degenerate_draw.nonpositive_spacing"] += 1
                return float(-abs(loc) * 0.5)
            if f == "tiny" and self.scalar_draws % 2 == 0:
                self.C["fault.degenerate_draw.tiny_spacing"] += 1
                return 1e-5
            return float(loc + scale * z)
        n = int(np.prod(size))
        zs = np.array(st.normals(n)).reshape(size)
        loc_a = np.asarray(loc, dtype=np.float64)
        scale_a = np.asarray(scale, dtype=np.float64)
        vp = self.plan["vp"]
        if self.faults.get("first_visit") == "far" and loc_a.ndim == 0 and float(loc_a) == vp.get("first_visit_mean") and float(scale_a) == vp.get("first_visit_std") \
                and not self.first_visit_done:
            # first visit 3-4 sigma away from the reference time: values saturate, the beta variance clamp engages
            self.first_visit_done = True
            self.C["fault.degenerate_draw.first_visit_far"] += 1
            zs = np.sign(zs + 1e-9) * (3.0 + np.abs(zs) / 3)
        return loc_a + scale_a * zs

    def on_beta(self, a, b):
        from scipy.stats import beta as _beta

        self.n_beta += 1
        a_arr = np.asarray(a, dtype=np.float64)
        b_arr = np.asarray(b, dtype=np.float64)
        if not (np.all(np.isfinite(a_arr)) and np.all(np.isfinite(b_arr)) and np.all(a_arr > 0) and np.all(b_arr > 0)):
            self.bad_beta = (a_arr[:3].tolist(), b_arr[:3].tolist())
        st = Stream(self.plan["gseed"], "beta", self.n_beta)
        u = np.array([min(max(st.random(), 1e-12), 1 - 1e-12) for _ in range(a_arr.size)]).reshape(a_arr.shape)
        return _beta.ppf(u, a_arr, b_arr)


# =========================================================================== plans
def make_plan(seed: int, tier: str) -> dict:
    rng = SimRng(seed)
    st = rng.stream("plan")
    nf = st.choice([2, 3, 4]) if st.bernoulli(0.93) else 1
    ns = 0 if nf == 1 else (0 if st.bernoulli(0.07) else st.choice([1, 1, 2, 2]))
    ns = min(ns, nf - 1)
    noise = st.choice(["gaussian-scalar", "gaussian-diagonal"]) if nf > 1 else "gaussian-scalar"
    plan = {"seed": seed, "tier": tier, "engine": "gensim_c18", "nf": nf, "ns": ns, "noise": noise, "gseed": st.u64() & 0xFFFFFFFF,
            "aseed": st.randint(0, 99), "faults": {}}
    feats = [f"Y{j}" for j in range(nf)]
    fmode = st.weighted([("model", 16), ("invalid", 3), ("other_names", 3), ("fewer", 1)])
    if fmode == "model":
        plan["features"] = feats
    elif fmode == "other_names":
        plan["features"] = [f"sim_{j}" for j in range(nf)]
    elif fmode == "fewer":
        plan["features"] = feats[: max(1, nf - 1)]
    else:
        plan["features"] = st.choice([[], "Y0", [""], ["Y0", 3], [" "], None, ("Y0",)])
    dkind = st.weighted([("random", 5), ("dataframe", 4), ("invalid", 2)])
    if dkind == "random":
        vp = {"visit_type": "random", "patient_number": st.choice([2, 2, 3, 3, 5, 8, 8, 13] + ([1] if st.bernoulli(0.3) else [])),
              "first_visit_mean": st.choice([0.0, -2.0, 1.5, round(st.uniform(-5, 5), 2)]), "first_visit_std": st.choice([0.0, 0.4, 2.0]),
              "time_follow_up_mean": st.choice([0.0, 1.0, 4.0, 11, round(st.uniform(0, 8), 2)]), "time_follow_up_std": st.choice([0.0, 0.5, 2]),
              "distance_visit_mean": st.choice([0.5, 1.0, 2 / 12, 1, round(st.uniform(0.05, 2), 3)]), "distance_visit_std": st.choice([0.0, 0.0, 0.1, 0.75 / 12, 0.5])}
        if st.bernoulli(0.6):
            vp["min_spacing_between_visits"] = st.choice([1 / 365, 0.1, 0.01, 1, 0.5, 0.001, 0.002] + ([0.0005, 0] if st.bernoulli(0.2) else []))
        # served degenerate draws only where they have a non-negligible probability under the design itself
        choices = [{}, {}, {}, {"first_visit": "far"}]
        if vp["distance_visit_std"] > 0 and vp["distance_visit_mean"] / vp["distance_visit_std"] < 4:
            choices += [{"spacing": "nonpositive"}, {"spacing": "tiny"}]
        plan["faults"] = st.choice(choices)
    elif dkind == "dataframe":
        n = st.choice([2, 2, 3, 5, 5] + ([1] if st.bernoulli(0.3) else []))
        id_style = st.choice(["str", "str", "str", "numstr", "numstr"] + (["int"] if st.bernoulli(0.3) else []))
        rows = []
        for i in range(n):
            pid = {"str": f"P{i}", "int": 100 + i, "numstr": str(7 - i)}[id_style]
            t0 = st.uniform(60, 85)
            nv = st.choice([1, 1, 2, 3, 5])
            ts = [round(t0 + j * st.uniform(0.0004, 1.5), st.choice([1, 2, 4, 6])) for j in range(nv)]
            if st.bernoulli(0.25) and nv > 1:
                ts.append(ts[0])          # repeated age
            if st.bernoulli(0.4):
                ts = st.shuffle(ts)      # unsorted
            rows += [[pid, t] for t in ts]
        if st.bernoulli(0.3):
            rows = st.shuffle(rows)
        vp = {"visit_type": "dataframe", "table": rows, "table_cols": ["ID", "TIME"]}
        if st.bernoulli(0.4):
            vp["min_spacing_between_visits"] = st.choice([1 / 365, 0.1, 0.01, 1])
        if st.bernoulli(0.4):
            vp["index_style"] = st.choice(["permuted", "gaps", "repeated", "strings"])
    else:
        base = {"visit_type": "random", "patient_number": 3, "first_visit_mean": 0.0, "first_visit_std": 0.4, "time_follow_up_mean": 4.0,
                "time_follow_up_std": 0.5, "distance_visit_mean": 1.0, "distance_visit_std": 0.2}
        bad = st.choice(["missing", "type", "negative_std", "zero_patients", "negative_patients", "mean_nonpositive_std_positive", "mean_nonpositive_std_zero",
                         "negative_min_spacing", "bool_patients", "float_patients", "table_no_id", "table_null_time", "table_not_frame", "unknown_visit_type", "min_spacing_str"])
        vp = dict(base)
        if bad == "missing":
            del vp[st.choice(sorted(k for k in base if k != "visit_type"))]
        elif bad == "type":
            vp[st.choice(["first_visit_mean", "time_follow_up_std", "distance_visit_mean"])] = "1.0"
        elif bad == "negative_std":
            vp[st.choice(["first_visit_std", "time_follow_up_std", "distance_visit_std"])] = -0.1
        elif bad == "zero_patients":
            vp["patient_number"] = 0
        elif bad == "negative_patients":
            vp["patient_number"] = -2
        elif bad == "mean_nonpositive_std_positive":
            vp["distance_visit_mean"] = st.choice([0.0, -0.05, -1])
        elif bad == "mean_nonpositive_std_zero":
            vp["distance_visit_mean"] = st.choice([0.0, -1])
            vp["distance_visit_std"] = 0.0
        elif bad == "negative_min_spacing":
            vp["min_spacing_between_visits"] = -0.5
        elif bad == "min_spacing_str":
            vp["min_spacing_between_visits"] = "0.1"
        elif bad == "bool_patients":
            vp["patient_number"] = True
        elif bad == "float_patients":
            vp["patient_number"] = 3.0
        elif bad == "table_no_id":
            vp = {"visit_type": "dataframe", "table": [["a", 70.0], ["a", 71.0]], "table_cols": ["SUBJECT", "TIME"]}
        elif bad == "table_null_time":
            vp = {"visit_type": "dataframe", "table": [["a", 70.0], ["a", None], ["b", 72.0]], "table_cols": ["ID", "TIME"]}
        elif bad == "table_not_frame":
            vp = {"visit_type": "dataframe", "table_raw": [["a", 70.0]]}
        elif bad == "unknown_visit_type":
            vp["visit_type"] = "regular"
        plan["bad"] = bad
    plan["design"] = dkind
    plan["vp"] = vp
    if dkind == "random" and st.bernoulli(0.2):
        plan["axis"] = "since_baseline"
    return plan


def design_is_valid(plan) -> bool:
    """Documented requirements (class docstring + error messages)."""
    if plan["design"] == "invalid":
        return False
    f = plan["features"]
    if not (isinstance(f, list) and len(f) > 0 and all(isinstance(x, str) and x.strip() for x in f)):
        return False
    return True


def build_vp(plan):
    vp = copy.deepcopy(plan["vp"])
    if "table" in vp:
        df = pd.DataFrame(vp.pop("table"), columns=vp.pop("table_cols"))
        # row labels are not part of the design: a table that was sorted, filtered or concatenated keeps arbitrary labels
        ist = vp.pop("index_style", "default")
        if ist == "permuted" and len(df) > 1:
            df.index = [(7 * i + 3) % len(df) if np.gcd(7, len(df)) == 1 else len(df) - 1 - i for i in range(len(df))]
        elif ist == "gaps":
            df.index = [10 + 3 * i for i in range(len(df))]
        elif ist == "repeated":
            df.index = [0] * len(df)
        elif ist == "strings":
            df.index = [f"row{i}" for i in range(len(df))]
        vp["df_visits"] = df
    if "table_raw" in vp:
        vp["df_visits"] = vp.pop("table_raw")
    return vp


# =========================================================================== run
def run_plan(plan: dict) -> dict:
    from leaspy.exceptions import LeaspyAlgoInputError
    import leaspy.algo.simulate.simulate as simmod

    out = new_outcome(plan)
    log = EventLog()
    torch.set_num_threads(1)
    C = out["counters"]
    nf, ns = plan["nf"], plan["ns"]
    kind = "logistic_uni" if nf == 1 else ("logistic_diag_nosrc" if ns == 0 else ("logistic_scalar" if plan["noise"] == "gaussian-scalar" else "logistic_diag"))
    if ns == 0 and nf > 1 and plan["noise"] == "gaussian-scalar":
        kind = "logistic_diag_nosrc"
    try:
        settings = ac.handwritten_settings(Stream(plan["gseed"], "model"), kind, nf, source_dimension=ns)
        if plan.get("axis") == "since_baseline":
            # time counted from a baseline / diagnosis: reference times around 0, so many simulated ages are negative (no documented sign constraint)
            settings["parameters"]["tau_mean"] = [round(settings["parameters"]["tau_mean"][0] - 70.0, 4)]
            C["probe.time_axis_since_baseline"] += 1
        model = ac.load_from_settings(settings)
    except Exception as e:
        out["discarded"] = f"setup:{type(e).__name__}"
        out["digest"] = "setup-failed"
        return out
    vp = build_vp(plan)
    valid = design_is_valid(plan)
    world = GenWorld(plan, log, C)
    if plan["design"] == "random" and valid:
        fu = abs(vp["time_follow_up_mean"]) + 4 * vp["time_follow_up_std"] + 1
        world.budget = int(40 * (fu / max(vp["distance_visit_mean"], 1e-3) + 10)) * vp["patient_number"] + 200
    else:
        world.budget = 5000
    if plan["faults"]:
        C["probe.degenerate_draw_served"] += 1
    if plan["design"] == "random" and vp.get("distance_visit_std") == 0:
        C["probe.zero_spacing_std"] += 1
    where = f"design={plan['design']} nf={nf} ns={ns} features={plan['features']!r} vp={ {k: v for k, v in plan['vp'].items() if k != 'table'} }"
    exc = None
    res = None
    df_in = vp.get("df_visits")
    df_copy = df_in.copy(deep=True) if isinstance(df_in, pd.DataFrame) else None
    with contextlib.ExitStack() as es, warnings.catch_warnings(record=True) as wrn, contextlib.redirect_stdout(io.StringIO()):
        warnings.simplefilter("always")
        es.enter_context(patched(simmod, "np", NpProxy(world)))
        es.enter_context(patched(simmod, "beta", BetaProxy(world)))
        try:
            res = model.simulate(algorithm="simulate", features=plan["features"], visit_parameters=vp, seed=plan["aseed"])
        except BaseException as e:  # noqa
            exc = e
        if any("Variance value" in str(x.message) for x in wrn):
            C["probe.variance_clamp_engaged"] += 1
    drawn = world.n_normal + world.n_beta
    log.add("simulate", plan["design"], valid, type(exc).__name__ if exc else "ok", world.n_normal, world.n_beta)
    feature_case = _feature_case(plan, model)
    if not valid:
        # refused with an algorithm-input error before anything is generated
        if isinstance(exc, LeaspyAlgoInputError) and drawn == 0:
            C["probe.invalid_design_refused"] += 1
        elif isinstance(exc, LeaspyAlgoInputError):
            violation(out, "refusal", f"refused_after_generation_started:{plan.get('bad', feature_case)}", f"{where}: {drawn} draws before refusal")
        elif isinstance(exc, BudgetExceeded):
            violation(out, "refusal", f"invalid_design_accepted_and_does_not_terminate:{plan.get('bad', feature_case)}", f"{where}: {exc}")
        elif exc is not None:
            violation(out, "refusal", f"invalid_design_wrong_error:{type(exc).__name__}:{plan.get('bad', feature_case)}", f"{where}: {type(exc).__name__}: {str(exc)[:200]}")
        else:
            violation(out, "refusal", f"invalid_design_accepted:{plan.get('bad', feature_case)}", f"{where}")
        return _finish(out, plan, log)
    # ---------------------------------------------------------------- valid design: completes
    ctx = _context(plan, vp, model)
    if isinstance(exc, BudgetExceeded):
        violation(out, "completes", f"does_not_terminate:{ctx}", f"{where}: {exc}")
        return _finish(out, plan, log)
    if exc is not None:
        violation(out, "completes", f"valid_design_raised:{_cause(plan, vp, model, exc)}:{type(exc).__name__}", f"{where}: {type(exc).__name__}: {str(exc)[:300]}")
        return _finish(out, plan, log)
    C["probe.random_design_completed" if plan["design"] == "random" else "probe.table_design_completed"] += 1
    # ---------------------------------------------------------------- the Result honours the design
    try:
        df = res.data.to_dataframe()
    except Exception as e:
        violation(out, "result", f"result_unreadable:{type(e).__name__}", where)
        return _finish(out, plan, log)
    ids = list(dict.fromkeys(df["ID"]))
    if plan["design"] == "random":
        exp_ids = [str(i) for i in range(vp["patient_number"])]
        if len(ids) != vp["patient_number"]:
            violation(out, "result", f"number_of_individuals:{ctx}", f"{where}: {len(ids)} individuals for {vp['patient_number']} requested")
    else:
        tab = df_in
        exp_ids = [str(i) for i in dict.fromkeys(tab["ID"])]
        if sorted(ids) != sorted(exp_ids):
            violation(out, "result", f"individuals_not_those_of_table:{ctx}", f"{where}: {ids[:5]} vs {exp_ids[:5]}")
        else:
            ms = 1 / 365   # (the documented default: `min_spacing_between_visits` is a parameter of the *random* design only)
            prec = next((p for p, v in sorted({0: 1, 1: 0.1, 2: 0.01, 3: 0.001}.items()) if v <= ms), None)
            for pid in exp_ids:
                raw = [t for i, t in zip(tab["ID"], tab["TIME"]) if str(i) == pid]
                exp_ages = sorted(set(float(x) for x in np.round(np.asarray(raw, dtype=np.float64), prec))) if prec is not None else None
                got_ages = list(df.loc[df["ID"] == pid, "TIME"])
                if exp_ages is not None and len(exp_ages) < len(raw):
                    C["probe.duplicate_ages_after_rounding"] += 1
                if exp_ages is not None and [round(float(x), 6) for x in got_ages] != [round(x, 6) for x in exp_ages]:
                    violation(out, "result", f"ages_not_table_ages_rounded:{ctx}", f"{where}: {pid}: {got_ages[:6]} vs {exp_ages[:6]}")
                    break
            if [str(i) for i in tab["ID"]] != sorted(str(i) for i in tab["ID"]) or any(
                    list(tab.loc[tab["ID"] == i, "TIME"]) != sorted(tab.loc[tab["ID"] == i, "TIME"]) for i in dict.fromkeys(tab["ID"])):
                C["probe.unsorted_table"] += 1
        if df_copy is not None and not (df_in.equals(df_copy) and list(df_in.columns) == list(df_copy.columns)):
            violation(out, "result", "caller_table_modified", where)
    for pid in ids:
        ages = list(df.loc[df["ID"] == pid, "TIME"])
        if any(b <= a for a, b in zip(ages, ages[1:])):
            violation(out, "result", f"ages_not_strictly_increasing:{ctx}", f"{where}: {pid}: {ages[:8]}")
            break
    cols = [c for c in df.columns if c not in ("ID", "TIME")]
    if cols != list(plan["features"]):
        violation(out, "result", f"features_not_requested_features:{ctx}", f"{where}: {cols}")
    else:
        v = df[cols].values.astype(np.float64)
        if not np.isfinite(v).all():
            violation(out, "result", f"values_not_finite:{ctx}", f"{where}: {int((~np.isfinite(v)).sum())} non-finite values")
        elif (v < 0).any() or (v > 1).any():
            violation(out, "result", f"values_outside_unit_interval:{ctx}", where)
    ipd = res.individual_parameters
    try:
        n_ip = len(ipd) if hasattr(ipd, "__len__") else None
        ip_ids = [str(i) for i in ipd.index] if hasattr(ipd, "index") else None
    except Exception:
        n_ip, ip_ids = None, None
    if n_ip is not None and n_ip != len(exp_ids):
        violation(out, "result", f"reported_parameters_count:{ctx}", f"{where}: {n_ip} rows for {len(exp_ids)} individuals")
    elif ip_ids is not None and sorted(ip_ids) != sorted(exp_ids):
        violation(out, "result", f"reported_parameters_ids:{ctx}", f"{where}: {ip_ids[:5]} vs {exp_ids[:5]}")
    return _finish(out, plan, log)


def _feature_case(plan, model):
    f = plan["features"]
    if not isinstance(f, list):
        return f"features_{type(f).__name__}"
    if len(f) == 0:
        return "features_empty"
    if not all(isinstance(x, str) for x in f):
        return "features_non_string"
    if not all(x.strip() for x in f):
        return "features_blank"
    return "features_ok"


def _context(plan, vp, model):
    """The *primary* aspect of a valid design known to matter (keeps signatures specific and few)."""
    nf, ns = plan["nf"], plan["ns"]
    n_req = vp.get("patient_number") if plan["design"] == "random" else len(set(vp["df_visits"]["ID"]))
    ms = vp.get("min_spacing_between_visits", 1 / 365)
    if ns == 0:
        return "model_without_sources"
    if plan["design"] == "dataframe" and not all(isinstance(i, str) for i in vp["df_visits"]["ID"]):
        return "integer_ids_in_table"
    if n_req == 1:
        return "one_individual_with_sources"
    if isinstance(ms, (int, float)) and ms < 0.001:
        return "min_spacing_below_0.001"
    if len(plan["features"]) != nf:
        return "fewer_features_than_dimensions"
    if tuple(model.parameters["noise_std"].shape) == (1,):
        return "scalar_noise_std_of_shape_1"
    if plan["faults"]:
        return "plain+fault_" + "_".join(f"{k}_{v}" for k, v in sorted(plan["faults"].items()))
    return "plain"


def _cause(plan, vp, model, exc):
    """Which aspect of the (valid) design explains this exception?  Each known aspect has one characteristic failure."""
    nf, ns = plan["nf"], plan["ns"]
    n_req = vp.get("patient_number") if plan["design"] == "random" else len(set(vp["df_visits"]["ID"]))
    ms = vp.get("min_spacing_between_visits", 1 / 365) if plan["design"] == "random" else 1 / 365
    msg, typ = str(exc), type(exc).__name__
    if ns == 0 and typ == "RuntimeError" and "non-empty TensorList" in msg:
        return "model_without_sources"
    if plan["design"] == "dataframe" and not all(isinstance(i, str) for i in vp["df_visits"]["ID"]) and typ == "LeaspyIndividualParamsInputError" and "should be a string" in msg:
        return "integer_ids_in_table"
    if isinstance(ms, (int, float)) and ms < 0.001 and typ == "TypeError" and "NoneType" in msg:
        return "min_spacing_below_0.001"
    if len(plan["features"]) != nf and typ == "ValueError" and "Shape of passed values" in msg:
        return "fewer_features_than_dimensions"
    if n_req == 1 and ns > 0 and typ == "LeaspyDataInputError" and "at least 1 row" in msg:
        return "one_individual_with_sources"
    return "unexplained:" + _context(plan, vp, model)


def _finish(out, plan, log):
    C = out["counters"]
    key = (plan["nf"], plan["ns"], plan["noise"], repr(plan["features"]), repr(plan["vp"]), repr(plan["faults"]))
    out["keys"].add("run:" + hashlib.sha1(repr(key).encode()).hexdigest()[:16])
    out["nontrivial"] = C["probe.random_design_completed"] + C["probe.table_design_completed"] + C["probe.invalid_design_refused"] > 0 or bool(out["violations"])
    out["digest"] = log.digest()
    out["sample"] = {k: v for k, v in plan.items() if k not in ("seed", "tier", "engine", "gseed")}
    return out


def shrink(plan: dict):
    vp = plan["vp"]
    if plan["faults"]:
        p = copy.deepcopy(plan)
        p["faults"] = {}
        yield p
    if "table" in vp and len(vp["table"]) > 1:
        for i in range(len(vp["table"])):
            p = copy.deepcopy(plan)
            del p["vp"]["table"][i]
            yield p
    if plan["design"] == "random":
        for key, simple in (("patient_number", 2), ("first_visit_std", 0.0), ("time_follow_up_std", 0.0), ("distance_visit_std", 0.0), ("time_follow_up_mean", 1.0)):
            if vp.get(key) != simple and key in vp:
                p = copy.deepcopy(plan)
                p["vp"][key] = simple
                yield p
        if "min_spacing_between_visits" in vp:
            p = copy.deepcopy(plan)
            del p["vp"]["min_spacing_between_visits"]
            yield p
    for key, simple in (("nf", 2), ("ns", 1), ("noise", "gaussian-diagonal")):
        if plan[key] != simple and isinstance(plan["features"], list) and len(plan["features"]) == plan["nf"] and key != "nf":
            p = copy.deepcopy(plan)
            p[key] = min(simple, p["nf"] - 1) if key == "ns" else simple
            yield p
