"""C06 — missing and padded observations never influence any result (twinsim).

Twin A runs on the cohort as loaded, twin B on the same cohort whose masked cells (missing entries, padded
visits, padded ages) were overwritten after loading, and / or with extra all-masked visit columns; both
receive identical served draws.  Every recorded quantity of the two histories must agree.
"""
from __future__ import annotations

import copy
import hashlib
import warnings

import numpy as np
import torch

from ..core import workload
from ..core.driver import EventLog, new_outcome, violation
from ..core.rng import SimRng, Stream
from ..ref import refmath as rm
from . import apisim_common as ac
from . import fitsim, persosim

PROPERTY = "C06"
TIERS = {
    "quick": {"runs": 360, "budget_s": 115, "chunk": 3},
    "thorough": {"runs": 8000, "budget_s": 900, "chunk": 6},
}
REQUIRED_PROBES = {
    "quick": ["probe.poison_twin_compared", "probe.padding_twin_compared", "probe.missing_entries_present", "probe.padded_visits_present"],
    "thorough": ["probe.poison_twin_compared", "probe.padding_twin_compared", "probe.missing_entries_present", "probe.padded_visits_present",
                 "probe.poison.nan", "probe.poison.inf", "probe.poison.huge", "probe.poison.finite", "probe.personalize_twin_compared", "probe.whole_feature_missing",
                 "probe.estimate_twin_compared"],
}
DESCRIBE = {
    "rule": "one case = one cohort (missing entries, whole feature missing, unequal visit counts) + one model kind + one fault (masked cells and padded ages overwritten with "
            "7.5 / 1e30 / NaN / +inf / -inf / a mix, and / or 1-3 extra all-masked visit columns) + one workload (whole real fit of 3-12 iterations, or personalisation with one of the three "
            "algorithms, then estimates at real visits); twin histories compared step by step (sampler outcomes, per-individual terms, sufficient statistics, parameters after each M-step, "
            "observation counts, noise level, personalised parameters); distinct = configuration digest; non-trivial = twins compared on a cohort that has masked cells",
    "distinct_measure": "digest of (model kind, cohort shape, missingness, fault kind, padding, workload)",
    "real": ["Dataset tensors / WeightedTensor arithmetic / obs models / sufficient statistics / M-step / samplers / personalisation algorithms"],
    "stub": ["randn / rand / shuffle served identically to both twins", "joblib executor simulated", "stdout captured"],
    "assumptions": ["poison only => bit-equal histories; padding changes => rtol 1e-4 / atol 5e-5 (1 + max|x|) (float32 summation order), and a twin comparison stops (counted) at the first decision that differs while the "
                    "uniform was within 1e-4 relative of the acceptance ratio", "the corruption is applied after the loader ran: timing adds nothing (every cached quantity is computed later)",
                    "mixture model not covered"],
}
KINDS = ["logistic_scalar", "logistic_diag", "logistic_diag_nosrc", "logistic_binary", "linear_diag", "linear_scalar", "shared_speed", "joint_multi", "joint_nosrc", "joint_ev2"]
POISONS = ["finite", "huge", "nan", "inf", "-inf", "mixed"]


def make_plan(seed: int, tier: str) -> dict:
    rng = SimRng(seed)
    st = rng.stream("plan")
    kind = st.choice(KINDS)
    cfg = {"kind": kind, "n": st.choice([3, 5, 7]), "nf": 3, "max_visits": st.randint(2, 4), "missing": st.choice([0.15, 0.3, 0.45]),
           "whole_ft": st.bernoulli(0.3), "gseed": st.u64() & 0xFFFFFFFF, "n_iter": st.randint(3, 8 if tier == "quick" else 12),
           "sampler_pop": st.choice(["Gibbs", "FastGibbs", "Metropolis-Hastings"]), "n_burn_in_iter_frac": st.choice([0.5, 0.3, 0.9]), "decisions": {}}
    fault = st.choice(["poison", "poison", "poison", "pad", "pad", "both"])
    plan = {"seed": seed, "tier": tier, "engine": "twinsim_c06", "world": cfg, "fault": fault,
            "poison": st.choice(POISONS) if fault != "pad" else None, "pad": st.randint(1, 3) if fault != "poison" else 0,
            "pad_fill": st.choice(["zero", "poison"]),
            "workload": st.choice(["fit", "fit", "mean_posterior", "mode_posterior", "scipy_minimize"]), "aseed": st.randint(0, 9)}
    if st.bernoulli(0.08):
        # the mixture model has no hand-written parameter file in this harness: whole fits only
        plan["world"]["kind"] = "mixture"
        plan["workload"] = "fit"
    elif st.bernoulli(0.15) and not kind.startswith("joint"):
        # the benchmark `constant` model personalised on the very same (corrupted / padded) dataset, each documented prediction type
        plan["workload"] = "constant_prediction"
        plan["prediction_type"] = st.choice(["last", "last-known", "max", "mean", "mean"])
    return plan


def poison_value(kind, st):
    if kind == "finite":
        return 7.5
    if kind == "huge":
        return 1e30
    if kind == "nan":
        return float("nan")
    if kind == "inf":
        return float("inf")
    if kind == "-inf":
        return float("-inf")
    return st.choice([7.5, 1e30, float("nan"), float("inf"), float("-inf"), -3.0])


def corrupt(dataset, plan):
    """Overwrite storage the system declares meaningless; return counts."""
    st = Stream(plan["seed"], "poison")
    info = {"masked_entries": 0, "padded_ages": 0, "extra_columns": 0}
    k = plan["pad"]
    n, v, f = dataset.values.shape
    if k:
        vals = torch.zeros((n, v + k, f))
        mask = torch.zeros((n, v + k, f))
        tps = torch.zeros((n, v + k))
        vals[:, :v] = dataset.values
        mask[:, :v] = dataset.mask
        tps[:, :v] = dataset.timepoints
        dataset.values, dataset.mask, dataset.timepoints = vals, mask, tps
        dataset.n_visits_max = v + k
        info["extra_columns"] = k
    if plan["poison"] is not None or (k and plan["pad_fill"] == "poison"):
        pk = plan["poison"] or "mixed"
        vals = dataset.values.clone()
        m0 = dataset.mask == 0
        flat = vals.reshape(-1)
        idx = m0.reshape(-1).nonzero().reshape(-1).tolist()
        for i in idx:
            flat[i] = poison_value(pk, st)
        info["masked_entries"] = len(idx)
        dataset.values = flat.reshape(vals.shape)
        tps = dataset.timepoints.clone()
        for i, nv in enumerate(dataset.n_visits_per_individual):
            for j in range(nv, tps.shape[1]):
                tps[i, j] = poison_value(pk, st)
                info["padded_ages"] += 1
        dataset.timepoints = tps
    return info


class Trace(fitsim.Monitor):
    """Records the history of one twin."""

    def __init__(self, n_real_visits):
        self.events = []   # (label, {name: np.ndarray})
        self.v = n_real_visits
        self.decisions = []

    def _t(self, x):
        if hasattr(x, "weight") and hasattr(x, "value"):
            x = x.weighted_value
        a = x.detach().double().numpy().copy()
        return a

    def after_sample(self, w, k, var):
        s = w.state
        smp = w.algo.samplers[var]
        d = {"value": self._t(s[var]), "accepted": smp.acceptation_history[-1].double().numpy().copy()}
        self.events.append((f"k{k}:sample:{var}", d))

    def after_suffstats(self, w, k, stats):
        d = {}
        for nm, val in stats.items():
            a = self._t(val)
            if a.ndim == 3:
                a = a[:, : self.v]          # real visit columns; extra padded columns must weigh nothing
            d[nm] = a
        # everything beyond the real visits must be exactly zero once weighted
        for nm, val in stats.items():
            a = self._t(val)
            if a.ndim == 3 and a.shape[1] > self.v:
                d[nm + ":beyond_real_visits"] = np.abs(np.nan_to_num(a[:, self.v:], nan=1e300)).sum(keepdims=True)
        self.events.append((f"k{k}:suffstats", d))

    def after_update(self, w, k, S, burn_in):
        s = w.state
        d = {p: self._t(s[p]) for p in w.param_names()}
        for nm in ("n_obs", "n_obs_per_ft", "y_L2", "y_L2_per_ft"):
            if nm in s.dag:
                d[nm] = self._t(s[nm])
        self.events.append((f"k{k}:update", d))

    def after_iteration(self, w, k):
        s = w.state
        d = {}
        for nm in ["nll_attach_ind", "nll_attach", "nll_regul_ind_sum"] + [f"nll_regul_{x}_ind" for x in w.ind_names()]:
            if nm in s.dag and nm != "nll_regul_ind_sum":
                d[nm] = self._t(s[nm])
        m = self._t(s["model"])
        d["model_at_real_visits"] = m[:, : self.v]
        self.events.append((f"k{k}:terms", d))


class ObservedOnly(fitsim.Monitor):
    """"Observation counts and noise estimates use observed entries only", checked directly on the clean twin after every update
    (the twin relation cannot see it: a term summed over unobserved entries of existing visits is the same in both twins)."""

    def __init__(self, out, cfg):
        from . import fitsim_c04

        self.c04 = fitsim_c04.C04Monitor(out, cfg)
        self.out = out
        self.C = out["counters"]

    def after_update(self, w, k, S, burn_in):
        s = w.state
        if "noise_std" in w.param_names() and "y_x_model" in S and "model_x_model" in S:
            self.C["probe.noise_over_observed_entries_checked"] += 1
            self.c04._noise(w, S, rm.f64(s["noise_std"]), f"k={k} kind={w.cfg['kind']} (clean twin)")
        mask = rm.weights(s["y"]) > 0
        for nm, exp in (("n_obs", mask.sum()), ("n_obs_per_ft", mask.sum(axis=(0, 1)))):
            if nm in s.dag:
                got = rm.f64(s[nm])
                if got.reshape(-1).shape != np.reshape(exp, -1).shape or not np.array_equal(got.reshape(-1), np.reshape(exp, -1).astype(np.float64)):
                    violation(self.out, "observed_only", f"observation_count:{nm}", f"k={k}: {nm} = {got.reshape(-1).tolist()} vs observed entries {np.reshape(exp, -1).tolist()}")


def compare_traces(A, B, exact, out, C, where):
    """First difference between two twin histories (None if they agree)."""
    if len(A.events) != len(B.events):
        violation(out, "twin_history", f"history_length:{'poison' if exact else 'padding'}", f"{where}: {len(A.events)} vs {len(B.events)} events")
        return
    for (la, da), (lb, db) in zip(A.events, B.events):
        if la != lb:
            violation(out, "twin_history", "event_order", f"{where}: {la} vs {lb}")
            return
        for nm in da:
            if nm not in db:
                continue
            a, b = da[nm], db[nm]
            if a.shape != b.shape:
                violation(out, "twin_history", f"shape_differs:{_g(nm)}", f"{where}: {la}: {nm}: {a.shape} vs {b.shape}")
                return
            if nm.endswith(":beyond_real_visits"):
                continue
            if not exact and nm == "nll_tot":
                continue  # sum of two large terms of opposite signs that are both compared on their own (nll_attach, nll_regul_ind_sum)
            if exact:
                ok = np.array_equal(a, b, equal_nan=True)
            else:
                # (float32 sums in another order: likelihood terms are sums of O(1) terms that partly cancel)
                ok = np.allclose(a, b, rtol=1e-4, atol=5e-5 * (1.0 + float(np.nanmax(np.abs(a))) if a.size and np.isfinite(a).any() else 1.0), equal_nan=True)
            if not ok:
                if not exact and nm == "accepted":
                    C["skip.decision_diverged_under_padding"] += 1
                    return  # near-tie flips are judged by the caller (needs alpha/u): stop comparing
                nonfin = (~np.isfinite(b)).any() and np.isfinite(a).all()
                cls = "nonfinite_in_poisoned_twin" if nonfin else "values_differ"
                stage = la.split(":")[1]
                violation(out, "twin_history", f"{cls}:{stage}:{_g(nm)}:{'poison' if exact else 'padding'}",
                          f"{where}: {la}: {nm}: clean {a.reshape(-1)[:4].tolist()} vs corrupted {b.reshape(-1)[:4].tolist()}")
                return
        for nm in db:
            if nm.endswith(":beyond_real_visits") and float(db[nm].sum()) != 0.0:
                violation(out, "twin_history", f"padded_columns_carry_weight:{_g(nm.split(':')[0])}", f"{where}: {la}: {nm} = {float(db[nm].sum())!r}")
                return


def _g(nm):
    if nm.startswith("nll_regul_"):
        return "nll_regul_ind"
    if nm.endswith("_mean") or nm.endswith("_std"):
        return nm
    return nm


def run_plan(plan: dict) -> dict:
    from leaspy.exceptions import LeaspyConvergenceError, LeaspyInputError

    out = new_outcome(plan)
    log = EventLog()
    torch.set_num_threads(1)
    C = out["counters"]
    cfg = plan["world"]
    kind = cfg["kind"]
    exact = plan["pad"] == 0
    where = f"kind={kind} fault={plan['fault']} poison={plan['poison']} pad={plan['pad']} workload={plan['workload']}"
    try:
        wa = fitsim.FitWorld(cfg, log, C, [])
        wb = fitsim.FitWorld(cfg, EventLog(), C, [])
    except Exception as e:
        out["discarded"] = f"setup:{type(e).__name__}"
        out["digest"] = "setup-failed"
        return out
    v_real = wa.dataset.values.shape[1]
    n_missing = int((wa.dataset.mask == 0).sum())
    if n_missing:
        C["probe.missing_entries_present"] += 1
    if len(set(wa.dataset.n_visits_per_individual)) > 1:
        C["probe.padded_visits_present"] += 1
    if cfg.get("whole_ft"):
        C["probe.whole_feature_missing"] += 1
    info = corrupt(wb.dataset, plan)
    if plan["poison"]:
        C[f"probe.poison.{ {'-inf': 'inf', 'mixed': 'nan'}.get(plan['poison'], plan['poison']) }"] += 1
        C["fault.mask_poison_cells"] += info["masked_entries"] + info["padded_ages"]
    if plan["pad"]:
        C["fault.pad_inflate_columns"] += info["extra_columns"]
    log.add("corrupt", plan["fault"], plan["poison"], plan["pad"], info["masked_entries"], info["padded_ages"])
    if plan["workload"] == "fit":
        ta, tb = Trace(v_real), Trace(v_real)
        wa.monitors, wb.monitors = [ta, ObservedOnly(out, cfg)], [tb]
        ea = wa.run()
        eb = wb.run()
        if ea is not None:
            if isinstance(ea, (LeaspyConvergenceError, LeaspyInputError)) and type(eb) is type(ea):
                C["abort.both_twins:" + type(ea).__name__] += 1
            elif eb is None or type(eb) is not type(ea):
                out["discarded"] = f"clean_twin_raised:{type(ea).__name__}"
            return _finish(out, plan, log, C)
        if eb is not None:
            violation(out, "twin_completes", f"corrupted_twin_raised:{type(eb).__name__}:{workload.kind_info(kind)['obs'] or kind}:{'poison' if exact else 'padding'}",
                      f"{where}: clean twin completed, corrupted twin raised {type(eb).__name__}: {str(eb)[:200]}")
            return _finish(out, plan, log, C)
        C["probe.poison_twin_compared" if exact else "probe.padding_twin_compared"] += 1
        compare_traces(ta, tb, exact, out, C, where)
        for la, d in ta.events[-3:]:
            log.add(la, hashlib.sha1(b"".join(np.ascontiguousarray(np.nan_to_num(x)).tobytes() for k_, x in sorted(d.items()) if not k_.startswith("nll_regul_ind_sum"))).hexdigest()[:10])
        # estimates at real visits from the two fitted models
        if not out["violations"]:
            C["probe.estimate_twin_compared"] += 1
            ma, mb = wa.model, wb.model
            tau_m = float(ma.parameters["tau_mean"].reshape(-1)[0])
            ipd = {"xi": 0.1, "tau": tau_m + 1.0}
            ns = ma.source_dimension or 0
            if ns:
                ipd["sources"] = [0.3, -0.2][:ns]
            ages = wa.dataset.timepoints[0, : wa.dataset.n_visits_per_individual[0]].tolist()
            with ac.quiet():
                ya = ma.compute_individual_trajectory(ages, ipd).numpy()
                yb = mb.compute_individual_trajectory(ages, ipd).numpy()
            if not (np.array_equal(ya, yb, equal_nan=True) if exact else np.allclose(ya, yb, rtol=1e-4, atol=1e-6, equal_nan=True)):
                violation(out, "twin_history", f"trajectories_at_real_visits_differ:{'poison' if exact else 'padding'}", where)
    elif plan["workload"] == "constant_prediction":
        from leaspy.models import ConstantModel

        ptype = plan["prediction_type"]
        C["probe.constant_model." + ptype] += 1
        res = []
        for ds in (wa.dataset, wb.dataset):
            try:
                with ac.quiet():
                    ip = ConstantModel("constant").personalize(ds, "constant_prediction", prediction_type=ptype)
                res.append((ip._individual_parameters, None))
            except Exception as e:
                res.append((None, e))
        (da, ea), (db, eb) = res
        if ea is not None:
            out["discarded"] = f"clean_twin_raised:{type(ea).__name__}"
            return _finish(out, plan, log, C)
        if eb is not None:
            violation(out, "twin_completes", f"corrupted_twin_raised:{type(eb).__name__}:constant:{'poison' if exact else 'padding'}:{ptype}", f"{where}: {type(eb).__name__}: {str(eb)[:200]}")
            return _finish(out, plan, log, C)
        C["probe.personalize_twin_compared"] += 1
        C["probe.poison_twin_compared" if exact else "probe.padding_twin_compared"] += 1
        for pid in da:
            for k_ in da[pid]:
                a, b = np.asarray(da[pid][k_], dtype=np.float64), np.asarray(db.get(pid, {}).get(k_, np.nan), dtype=np.float64)
                if a.shape != b.shape or not np.allclose(a, b, rtol=1e-6, atol=1e-7, equal_nan=True):
                    nonfin = (~np.isfinite(b)).any() and np.isfinite(a).all()
                    violation(out, "twin_history", f"{'nonfinite_in_poisoned_twin' if nonfin else 'values_differ'}:personalize:constant_prediction:{ptype}:{'poison' if exact else 'padding'}",
                              f"{where}: {pid}.{k_}: clean {a.tolist()} vs corrupted {b.tolist()}")
                    return _finish(out, plan, log, C)
        log.add("constant", ptype, len(da))
    else:
        # personalisation of the same cohort by a model loaded from hand-written parameters
        algo = plan["workload"]
        try:
            model_a = ac.load_from_settings(ac.handwritten_settings(Stream(cfg["gseed"], "model"), kind, cfg["nf"]))
            model_b = ac.load_from_settings(ac.handwritten_settings(Stream(cfg["gseed"], "model"), kind, cfg["nf"]))
        except Exception as e:
            out["discarded"] = f"setup:{type(e).__name__}"
            return _finish(out, plan, log, C)
        kw = dict(seed=plan["aseed"], progress_bar=False)
        if algo != "scipy_minimize":
            kw["n_iter"] = 8
        pcfg = {"gseed": cfg["gseed"], "decisions": {}}
        pa = persosim.PersoWorld(pcfg, model_a, wa.dataset, log, C)
        pb = persosim.PersoWorld(pcfg, model_b, wb.dataset, EventLog(), C)
        ra, ea = pa.run(algo, **kw)
        rb, eb = pb.run(algo, **kw)
        if ea is not None:
            if eb is None or type(eb) is not type(ea):
                out["discarded"] = f"clean_twin_raised:{type(ea).__name__}"
            else:
                C["abort.both_twins:" + type(ea).__name__] += 1
            return _finish(out, plan, log, C)
        if eb is not None:
            violation(out, "twin_completes", f"corrupted_twin_raised:{type(eb).__name__}:{workload.kind_info(kind)['obs'] or kind}:{'poison' if exact else 'padding'}:{algo}",
                      f"{where}: {type(eb).__name__}: {str(eb)[:200]}")
            return _finish(out, plan, log, C)
        C["probe.personalize_twin_compared"] += 1
        C["probe.poison_twin_compared" if exact else "probe.padding_twin_compared"] += 1
        da, db = ra._individual_parameters, rb._individual_parameters
        if list(da) != list(db):
            violation(out, "twin_history", "personalised_ids_differ", where)
        else:
            for pid in da:
                for k_ in da[pid]:
                    a, b = np.asarray(da[pid][k_], dtype=np.float64), np.asarray(db[pid][k_], dtype=np.float64)
                    ok = np.array_equal(a, b, equal_nan=True) if exact else np.allclose(a, b, rtol=2e-3, atol=1e-4, equal_nan=True)
                    if not ok:
                        nonfin = (~np.isfinite(b)).any() and np.isfinite(a).all()
                        violation(out, "twin_history", f"{'nonfinite_in_poisoned_twin' if nonfin else 'values_differ'}:personalize:{algo}:{'poison' if exact else 'padding'}",
                                  f"{where}: {pid}.{k_}: clean {a.tolist()} vs corrupted {b.tolist()}")
                        break
                if out["violations"]:
                    break
        log.add("perso", algo, len(da))
    return _finish(out, plan, log, C)


def _finish(out, plan, log, C):
    cfg = plan["world"]
    key = (cfg["kind"], cfg["n"], cfg["max_visits"], cfg["missing"], cfg["whole_ft"], cfg["n_iter"], cfg["sampler_pop"], plan["fault"], plan["poison"], plan["pad"], plan["workload"])
    out["keys"].add("run:" + hashlib.sha1(repr(key).encode()).hexdigest()[:16])
    out["nontrivial"] = (C["probe.poison_twin_compared"] + C["probe.padding_twin_compared"] > 0 and C["probe.missing_entries_present"] + C["probe.padded_visits_present"] > 0) or bool(out["violations"])
    out["digest"] = log.digest()
    out["sample"] = {"world": {k: v for k, v in cfg.items() if k != "gseed"}, "fault": plan["fault"], "poison": plan["poison"], "pad": plan["pad"], "workload": plan["workload"]}
    return out


def shrink(plan: dict):
    w = plan["world"]
    for n in sorted({1, 2, 3, w["n_iter"] // 2, w["n_iter"] - 1}):
        if 1 <= n < w["n_iter"]:
            p = copy.deepcopy(plan)
            p["world"]["n_iter"] = n
            yield p
    for key, simple in (("whole_ft", False), ("n", 3), ("max_visits", 2), ("sampler_pop", "Gibbs"), ("missing", 0.15)):
        if w.get(key) != simple:
            p = copy.deepcopy(plan)
            p["world"][key] = simple
            yield p
    if plan["fault"] == "both":
        for f in ("poison", "pad"):
            p = copy.deepcopy(plan)
            p["fault"] = f
            if f == "poison":
                p["pad"] = 0
            else:
                p["poison"] = None
            yield p
    if plan["poison"] not in (None, "finite"):
        p = copy.deepcopy(plan)
        p["poison"] = "finite"
        yield p
