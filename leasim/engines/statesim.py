"""C01 — values read from the lazily cached variable graph are never stale.

Seeded operation histories on `State` (toy DAGs and the DAG of every shipped model kind),
checked operation by operation against `RefStateModel` + `RefEval`.
"""
from __future__ import annotations

import contextlib
import copy
import io
import warnings

import torch

from ..core import workload
from ..core.driver import EventLog, ddmin_list, new_outcome, tdigest, violation
from ..core.rng import SimRng, Stream
from ..ref.refeval import RefEval, Unset, describe_diff, descendants, same, shares_storage

PROPERTY = "C01"
TIERS = {
    "quick": {"runs": 4000, "budget_s": 100, "chunk": 25},
    "thorough": {"runs": 60000, "budget_s": 900, "chunk": 50},
}
REQUIRED_PROBES = {
    "quick": ["probe.partial_revert_mixed", "probe.revert_after_read", "probe.read_unset_failed"],
    "thorough": [
        "probe.partial_revert_mixed", "probe.revert_after_read", "probe.read_unset_failed",
        "probe.definition_raised_midread", "probe.clone_then_diverge", "probe.real_dag_history",
        "probe.fork_copy_mode", "probe.precompute_failed_midway", "probe.put_indices_accumulate",
    ],
}
DESCRIBE = {
    "rule": "one case = one seeded history of 8-60 State operations (set/None, put(indices, accumulate), read, precompute_all, "
            "revert, per-row revert, clone(+interleaving), fork-mode switches, clear, failing reads, raising definitions) on a generated toy DAG "
            "(3-10 nodes) or on the real DAG of a shipped model kind; distinct = different (op-kind sequence, cache-occupancy trace) digest; "
            "non-trivial = the history hit at least one probe (revert after a read, mixed per-row revert, failed read, clone divergence...)",
    "distinct_measure": "digest of (operation-kind sequence, per-op cache-occupancy bitmap); op-kind 3-grams counted separately",
    "real": ["leaspy.variables.state.State", "leaspy.variables.dag.VariablesDAG", "leaspy.variables.specs (LinkedVariable, Hyperparameter, DataVariable, NamedVariables)",
             "model.get_variables_specs() of every shipped kind", "torch CPU kernels"],
    "stub": ["no RNG / clock / IO involved; toy definitions are generated keyword-only functions"],
    "assumptions": ["bit-equality between cached cells and a from-scratch evaluation is meaningful because both apply the same torch kernels to the same inputs in one thread",
                    "tensors returned by the state are never mutated in place (documented REF rule)",
                    "between an assignment and a per-row revert only row-wise (individual-axis) variables are read (documented precondition)",
                    "non-finite values are never present in rows that get reverted per-row (that case belongs to C02)"],
}

FORK_MODES = [None, "REF", "COPY"]
HASH_ORDER_SENSITIVE = {"nll_regul_ind_sum_ind", "nll_regul_ind_sum"}


def _fork(mode):
    from leaspy.variables.state import StateForkType

    return None if mode is None else StateForkType[mode]


# =========================================================================== toy graphs
class ToyCtx:
    """Side channel telling generated definitions whether the *state under test* is calling."""

    def __init__(self):
        self.real = False
        self.armed = {}  # name -> countdown (raise when it reaches 0)
        self.fired = []


class ToyBoom(RuntimeError):
    pass


def _toy_source(node) -> str:
    ps = node["parents"]
    args = ", ".join(ps)
    c = node["consts"]
    fn = node["fn"]
    nm = node["name"]
    if fn == "affine":
        terms = " + ".join(f"({c[i]!r}) * {p}" for i, p in enumerate(ps))
        body = f"{terms} + ({c[len(ps)]!r})"
    elif fn == "prod":
        body = " * ".join(f"({p} + ({c[i]!r}))" for i, p in enumerate(ps))
    elif fn == "exp":
        body = f"torch.exp(({c[0]!r}) * {ps[0]})" + "".join(f" + {p}" for p in ps[1:])
    elif fn == "tanh":
        body = f"torch.tanh({ps[0]}) * ({c[0]!r})" + "".join(f" + ({c[i]!r}) * {p}" for i, p in enumerate(ps[1:], 1))
    elif fn == "rowsum":  # aggregate over individuals
        body = f"{ps[0]}.sum(dim=0)" + "".join(f" + ({c[i]!r}) * {p}" for i, p in enumerate(ps[1:], 1))
    elif fn == "rowmean":
        body = f"{ps[0]}.mean(dim=0) * ({c[0]!r})" + "".join(f" + {p}" for p in ps[1:])
    elif fn == "window":  # weighted tensor whose *weights* depend on an individual input (an observation window)
        body = f"WeightedTensor(({c[0]!r}) * {ps[0]} + ({c[1]!r}), {ps[0]} > ({c[2]!r}))"
    elif fn == "wrow":    # row-wise function of a weighted tensor (value and weight both matter)
        body = f"{ps[0]}.weighted_value * ({c[0]!r}) + {ps[0]}.weight.to({ps[0]}.value.dtype)"
    elif fn == "wsum":    # aggregate over individuals of a weighted tensor
        body = f"{ps[0]}.weighted_value.sum(dim=0) + ({c[0]!r}) * {ps[0]}.weight.to({ps[0]}.value.dtype).sum(dim=0)"
    elif fn == "total":  # scalar-like aggregate keeping pop shape (k,)
        body = f"{ps[0]}.sum(dim=0) * 0 + {ps[0]}.sum()" + "".join(f" + {p}" for p in ps[1:])
    else:
        raise ValueError(fn)
    return (
        f"def {nm}_def(*, {args}):\n"
        f"    _ctx.hit({nm!r})\n"
        f"    return {body}\n"
    )


class _CtxHook:
    def __init__(self, ctx):
        self.ctx = ctx

    def hit(self, name):
        ctx = self.ctx
        if ctx.real and name in ctx.armed:
            ctx.armed[name] -= 1
            if ctx.armed[name] <= 0:
                del ctx.armed[name]
                ctx.fired.append(name)
                raise ToyBoom(name)


def build_toy(graph: dict, ctx: ToyCtx):
    """Return (dag, info) for a toy graph spec."""
    from leaspy.variables.dag import VariablesDAG
    from leaspy.variables.specs import DataVariable, Hyperparameter, LinkedVariable

    n, k = graph["n"], graph["k"]
    variables = {}
    hook = _CtxHook(ctx)
    for node in graph["nodes"]:
        nm = node["name"]
        if node["role"] == "hyper":
            st = Stream(graph["gseed"], "hyper", nm)
            variables[nm] = Hyperparameter(torch.tensor([round(st.uniform(-1, 1), 3) for _ in range(k)], dtype=torch.float32))
        elif node["role"] == "input":
            variables[nm] = DataVariable()
        else:
            from leaspy.utils.weighted_tensor import WeightedTensor

            ns = {"torch": torch, "_ctx": hook, "WeightedTensor": WeightedTensor}
            exec(_toy_source(node), ns)
            variables[nm] = LinkedVariable(ns[f"{nm}_def"])
    dag = VariablesDAG.from_dict(variables)
    tags = {node["name"]: ("ind" if node["tag"] == "indw" else node["tag"]) for node in graph["nodes"]}
    shapes = {nm: ((n, k) if tg == "ind" else (k,)) for nm, tg in tags.items()}
    settable = [node["name"] for node in graph["nodes"] if node["role"] == "input"]
    return dag, {"tags": tags, "shapes": shapes, "settable": settable, "n": n, "k": k}


def gen_toy_graph(st: Stream) -> dict:
    n = st.choice([2, 3, 5])
    k = st.choice([1, 2, 3])
    n_inputs_ind = st.randint(1, 2)
    n_inputs_pop = st.randint(1, 2)
    n_hyper = st.randint(0, 1)
    n_derived = st.randint(2, 7)
    nodes = []
    for i in range(n_inputs_ind):
        nodes.append({"name": f"xi{i}", "role": "input", "tag": "ind", "parents": []})
    for i in range(n_inputs_pop):
        nodes.append({"name": f"p{i}", "role": "input", "tag": "pop", "parents": []})
    for i in range(n_hyper):
        nodes.append({"name": f"h{i}", "role": "hyper", "tag": "pop", "parents": []})

    def names(tag):
        return [x["name"] for x in nodes if x["tag"] == tag]

    for j in range(n_derived):
        ind, pop, agg = names("ind"), names("pop"), names("agg")
        want = st.weighted([("ind", 4), ("agg", 3), ("pop", 2), ("agg2", 2 if agg else 0)])
        cs = [round(st.uniform(-1.5, 1.5), 2) or 0.5 for _ in range(5)]
        if want == "ind":
            ps = [st.choice(ind)]
            extra = st.sample([x for x in ind + pop if x not in ps], min(st.randint(0, 2), len(ind + pop) - 1))
            ps += extra
            fn = st.choice(["affine", "prod", "exp", "tanh"])
            tag = "ind"
        elif want == "agg":
            ps = [st.choice(ind)]
            extra = st.sample(pop + agg, min(st.randint(0, 1), len(pop + agg)))
            ps += extra
            fn = st.choice(["rowsum", "rowmean", "total"])
            tag = "agg"
        elif want == "agg2":
            ps = [st.choice(agg)]
            extra = st.sample([x for x in pop + agg if x not in ps], min(st.randint(0, 2), len(pop + agg) - 1))
            ps += extra
            fn = st.choice(["affine", "prod", "tanh"])
            tag = "agg"
        else:
            ps = st.sample(pop, min(st.randint(1, 2), len(pop)))
            fn = st.choice(["affine", "prod", "tanh"])
            tag = "pop"
        if fn == "exp":
            cs[0] = round(st.uniform(-0.3, 0.3), 2)
        nodes.append({"name": f"d{j}", "role": "derived", "tag": tag, "parents": ps, "fn": fn, "consts": cs})
    # weighted chain (drawn after the plain nodes): window(ind input) -> row-wise user and / or aggregate
    j = n_derived
    if st.bernoulli(0.35):
        src = st.choice([x["name"] for x in nodes if x["role"] == "input" and x["tag"] == "ind"])
        cs = [round(st.uniform(-1.5, 1.5), 2) or 0.5 for _ in range(5)]
        cs[2] = round(st.uniform(-0.4, 0.4), 2)
        wname = f"d{j}"
        nodes.append({"name": wname, "role": "derived", "tag": "indw", "parents": [src], "fn": "window", "consts": cs})
        j += 1
        for fn, tag in st.sample([("wrow", "ind"), ("wsum", "agg")], st.randint(1, 2)):
            nodes.append({"name": f"d{j}", "role": "derived", "tag": tag, "parents": [wname], "fn": fn, "consts": [round(st.uniform(0.5, 1.5), 2), 0, 0, 0, 0]})
            j += 1
    # no isolated node: give every childless root a child
    used = {p for x in nodes for p in x["parents"]}
    for x in list(nodes):
        if not x["parents"] and x["name"] not in used:
            if x["tag"] == "ind":
                nodes.append({"name": f"d{j}", "role": "derived", "tag": "ind", "parents": [x["name"]], "fn": "affine", "consts": [1.25, 0.5, 0, 0, 0]})
            else:
                nodes.append({"name": f"d{j}", "role": "derived", "tag": "pop", "parents": [x["name"]], "fn": "tanh", "consts": [0.75, 0, 0, 0, 0]})
            j += 1
    return {"type": "toy", "n": n, "k": k, "nodes": nodes, "gseed": st.u64() & 0xFFFFFFFF}


# =========================================================================== real model graphs
def build_model_graph(graph: dict):
    """Return (dag, info) for the DAG of a shipped model kind initialised on a generated cohort."""
    kind = graph["kind"]
    st = Stream(graph["gseed"], "cohort")
    with warnings.catch_warnings(), contextlib.redirect_stdout(io.StringIO()):
        warnings.simplefilter("ignore")
        df = workload.make_cohort(st, kind=kind, n=graph["n"], n_features=graph["nf"], max_visits=graph["max_visits"],
                                  missing_rate=graph["missing"])
        data = workload.to_data(df, kind)
        from leaspy.io.data import Dataset

        dataset = Dataset(data)
        model = workload.make_model(kind, graph["nf"])
        model.initialize(dataset)
    state0 = model.state
    dag = state0.dag
    from leaspy.variables.specs import DataVariable, IndividualLatentVariable, ModelParameter, PopulationLatentVariable

    n = dataset.n_individuals
    base = {}
    for nm in dag.sorted_variables_by_type.get(ModelParameter, {}):
        base[nm] = state0[nm]
    for nm in dag.sorted_variables_by_type.get(PopulationLatentVariable, {}):
        base[nm] = state0[nm]
    tmp = state0.clone(disable_auto_fork=True)
    with warnings.catch_warnings():
        warnings.simplefilter("ignore")
        model.put_data_variables(tmp, dataset)
    for nm in dag.sorted_variables_by_type.get(DataVariable, {}):
        base[nm] = tmp._values[nm]
    zs = Stream(graph["gseed"], "latent")
    ind_names = sorted(dag.sorted_variables_by_type.get(IndividualLatentVariable, {}))
    for nm in ind_names:
        var = dag[nm]
        shp = tuple(var.get_prior_shape(dag))
        mode = var.prior.mode.call(state0)
        sd = var.prior.stddev.call(state0)
        mode_t = torch.as_tensor(mode, dtype=torch.float32).reshape(-1)[: max(1, int(torch.tensor(shp).prod()))] if not isinstance(mode, torch.Tensor) else mode
        z = torch.tensor(zs.normals(n * int(torch.tensor(shp).prod())), dtype=torch.float32).reshape((n,) + shp)
        mu = mode_t.float().reshape(-1)[0] if mode_t.numel() != int(torch.tensor(shp).prod()) else mode_t.float().reshape(shp)
        sdv = sd.float().reshape(-1)[0] if torch.as_tensor(sd).numel() != int(torch.tensor(shp).prod()) else torch.as_tensor(sd).float().reshape(shp)
        base[nm] = (mu + 0.5 * sdv * z).float()
    settable = sorted(base)
    pop_like = [nm for nm in settable if nm not in ind_names and not isinstance(dag[nm], DataVariable)]
    data_names = sorted(dag.sorted_variables_by_type.get(DataVariable, {}))
    info = {"base": base, "settable": settable, "ind_names": ind_names, "pop_like": sorted(pop_like), "data_names": data_names,
            "n": n, "model": model}
    # row-wise tags by numerical probing (harness self-knowledge, independent of DAG closure tables)
    info["tags"] = _probe_rowwise(dag, base, ind_names, n)
    return dag, info


def _probe_rowwise(dag, base, ind_names, n):
    """tag[node] == 'ind' iff value has leading dim n and rows 1.. do not move when row 0 of every individual latent moves."""
    variables = dag.variables
    dep = descendants(variables, set(ind_names))
    a = RefEval(variables, dict(base))
    pert = dict(base)
    for nm in ind_names:
        v = base[nm].clone()
        v[0] = v[0] + 0.37
        pert[nm] = v
    b = RefEval(variables, pert)
    tags = {}
    for nm in variables:
        if nm in ind_names:
            tags[nm] = "ind"
            continue
        if nm not in dep:
            tags[nm] = "pop"
            continue
        try:
            va, vb = a.value(nm), b.value(nm)
        except Exception:
            tags[nm] = "agg"
            continue
        ta = va.value if hasattr(va, "weight") else va
        tb = vb.value if hasattr(vb, "weight") else vb
        if ta.ndim >= 1 and ta.shape[0] == n and n > 1 and torch.equal(ta[1:].nan_to_num(), tb[1:].nan_to_num()):
            tags[nm] = "ind"
        else:
            tags[nm] = "agg"
    # a node is row-wise only if all its individual-dependent parents are row-wise too
    changed = True
    while changed:
        changed = False
        for nm, var in variables.items():
            if tags[nm] == "ind" and nm not in ind_names:
                for p in var.get_ancestors_names():
                    if p in dep and tags[p] != "ind":
                        tags[nm] = "agg"
                        changed = True
                        break
    return tags


# =========================================================================== plan generation
def make_plan(seed: int, tier: str) -> dict:
    rng = SimRng(seed)
    st = rng.stream("plan")
    real = st.bernoulli(0.22 if tier == "quick" else 0.3)
    if real:
        kind = st.choice(workload.MODEL_KINDS)
        graph = {"type": "model", "kind": kind, "n": st.choice([5, 7]), "nf": 3, "max_visits": st.randint(2, 4),
                 "missing": st.choice([0.0, 0.15, 0.3]), "gseed": st.u64() & 0xFFFFFFFF}
        n_ops = st.randint(8, 30)
    else:
        graph = gen_toy_graph(rng.stream("graph"))
        n_ops = st.randint(10, 60)
    plan = {"seed": seed, "tier": tier, "engine": "statesim", "graph": graph,
            "fork0": st.choice(FORK_MODES), "n_ops": n_ops, "ops": None}
    plan["ops"] = gen_ops(plan)
    return plan


def gen_ops(plan: dict) -> list:
    """Generate the operation list by simulating only the *reference protocol* (no leaspy State involved)."""
    seed = plan["seed"]
    st = Stream(seed, "ops")
    graph = plan["graph"]
    if graph["type"] == "toy":
        tags = {x["name"]: x["tag"] for x in graph["nodes"]}
        inputs_ind = [x["name"] for x in graph["nodes"] if x["role"] == "input" and x["tag"] == "ind"]
        inputs_pop = [x["name"] for x in graph["nodes"] if x["role"] == "input" and x["tag"] == "pop"]
        derived = [x["name"] for x in graph["nodes"] if x["role"] == "derived"]
        hypers = [x["name"] for x in graph["nodes"] if x["role"] == "hyper"]
        all_names = [x["name"] for x in graph["nodes"]]
        n = graph["n"]
        data_names = []
    else:
        # names are only known after building the model: use symbolic selectors resolved at run time
        tags = None
        inputs_ind = ["@ind"]
        inputs_pop = ["@pop"]
        derived = ["@derived"]
        hypers = []
        all_names = ["@any"]
        n = graph["n"]
        data_names = ["@data"]
    ops = [{"op": "init", "keep": True, "unset": (st.sample(inputs_ind + inputs_pop, st.randint(0, 1)) if graph["type"] == "toy" and st.bernoulli(0.35) else [])}]
    vcount = 0
    n_states = 1
    while len(ops) < plan["n_ops"]:
        sid = st.randint(0, n_states - 1)
        kind = st.weighted([
            ("read", 30), ("set", 16), ("put", 10), ("revert", 8), ("set_then_partial", 9), ("set_none", 4),
            ("precompute", 4), ("clone", 4 if n_states < 3 else 0), ("mode", 5), ("fork_enter", 3), ("fork_exit", 3),
            ("clear_reinit", 1), ("is_set", 2), ("misuse", 2), ("read_all", 3), ("arm_raise", 4 if graph["type"] == "toy" else 0),
            ("set_nonfinite", 2), ("update", 5),
        ])
        vcount += 1
        if kind == "read":
            ops.append({"op": "read", "sid": sid, "name": st.choice(all_names), "sel": st.u64() & 0xFFFF})
        elif kind == "read_all":
            ops.append({"op": "read_all", "sid": sid})
        elif kind == "set":
            ops.append({"op": "set", "sid": sid, "name": st.choice(inputs_ind + inputs_pop + data_names), "sel": st.u64() & 0xFFFF, "v": vcount})
        elif kind == "set_nonfinite":
            ops.append({"op": "set", "sid": sid, "name": st.choice(inputs_ind + inputs_pop), "sel": st.u64() & 0xFFFF, "v": vcount,
                        "nonfinite": st.choice(["nan", "inf", "-inf"])})
        elif kind == "update":
            # bulk assignment through the MutableMapping interface: documented as a sequence of assignments (the last one is revertible)
            k_up = st.randint(2, 3)
            ops.append({"op": "update", "sid": sid, "items": [{"name": st.choice(inputs_ind + inputs_pop), "sel": st.u64() & 0xFFFF, "v": vcount * 10 + j}
                                                              for j in range(k_up)], "then_revert": st.bernoulli(0.5), "form": st.choice(["dict", "pairs", "kwargs"])})
        elif kind == "set_none":
            ops.append({"op": "set_none", "sid": sid, "name": st.choice(inputs_ind + inputs_pop + data_names), "sel": st.u64() & 0xFFFF})
        elif kind == "put":
            ops.append({"op": "put", "sid": sid, "name": st.choice(inputs_ind + inputs_pop), "sel": st.u64() & 0xFFFF, "v": vcount,
                        "ndix": st.randint(0, 2), "ix": [st.randint(0, 63), st.randint(0, 63)], "accumulate": st.bernoulli(0.6)})
        elif kind == "revert":
            ops.append({"op": "revert", "sid": sid})
        elif kind == "set_then_partial":
            # an assignment of an individual variable, a few allowed reads, then a per-row revert
            nm = st.choice(inputs_ind)
            sel = st.u64() & 0xFFFF
            as_put = st.bernoulli(0.4)
            if as_put:
                ops.append({"op": "put", "sid": sid, "name": nm, "sel": sel, "v": vcount, "ndix": st.choice([0, 0, 1]),
                            "ix": [st.randint(0, 63), st.randint(0, 63)], "accumulate": True, "guard_fork": True})
            else:
                ops.append({"op": "set", "sid": sid, "name": nm, "sel": sel, "v": vcount, "guard_fork": True})
            for _ in range(st.randint(0, 3)):
                ops.append({"op": "read", "sid": sid, "name": "@indtag", "sel": st.u64() & 0xFFFF, "only_ind": True})
            ops.append({"op": "revert_rows", "sid": sid, "mask": [st.bernoulli(0.5) for _ in range(n)] if st.bernoulli(0.8)
                        else [st.bernoulli(0.5)] * n})
        elif kind == "precompute":
            ops.append({"op": "precompute", "sid": sid})
        elif kind == "clone":
            ops.append({"op": "clone", "sid": sid, "disable_auto_fork": st.bernoulli(0.4), "keep_last_fork": st.bernoulli(0.5)})
            n_states += 1
        elif kind == "mode":
            ops.append({"op": "mode", "sid": sid, "mode": st.choice(FORK_MODES)})
        elif kind == "fork_enter":
            ops.append({"op": "fork_enter", "sid": sid, "mode": st.choice(FORK_MODES), "default": st.bernoulli(0.3)})
        elif kind == "fork_exit":
            ops.append({"op": "fork_exit", "sid": sid})
        elif kind == "clear_reinit":
            ops.append({"op": "clear", "sid": sid})
            ops.append({"op": "init", "sid": sid, "unset": []})
        elif kind == "is_set":
            ops.append({"op": "is_set", "sid": sid, "name": st.choice(inputs_ind + inputs_pop + data_names), "sel": st.u64() & 0xFFFF})
        elif kind == "misuse":
            ops.append({"op": "misuse", "sid": sid, "what": st.choice(["set_derived", "set_unknown", "read_unknown", "set_hyper", "del"]),
                        "sel": st.u64() & 0xFFFF})
        elif kind == "arm_raise":
            ops.append({"op": "arm_raise", "sid": sid, "name": st.choice(derived), "after": st.randint(1, 2)})
    return ops


# =========================================================================== reference protocol model
class RefState:
    """Sequential model of the State protocol: independent values, one-deep snapshot, fork mode stack."""

    def __init__(self, variables, fork_mode):
        self.variables = variables
        self.indep = {}
        self.snapshot = None  # (name, old_value)
        self.mode = fork_mode
        self.mode_stack = []

    def clone(self, disable_auto_fork, keep_last_fork):
        c = RefState(self.variables, None if disable_auto_fork else self.mode)
        c.indep = {k: (copy.deepcopy(v) if v is not None else None) for k, v in self.indep.items()}
        if keep_last_fork and self.snapshot is not None:
            c.snapshot = (self.snapshot[0], copy.deepcopy(self.snapshot[1]))
        return c

    def assign(self, name, value):
        if self.mode is not None:
            old = self.indep.get(name)
            self.snapshot = (name, copy.deepcopy(old) if self.mode == "COPY" else old)
        else:
            # an un-forked assignment makes an older snapshot meaningless: nothing can be reverted any more
            self.snapshot = None
        self.indep[name] = value

    def evaluator(self):
        return RefEval(self.variables, self.indep)


# =========================================================================== execution
def _value_for(plan, info, name, vid, ref: RefState, nonfinite=None):
    st = Stream(plan["seed"], "val", vid, name)
    if plan["graph"]["type"] == "toy":
        shp = info["shapes"][name]
        numel = 1
        for s in shp:
            numel *= s
        t = torch.tensor([round(x, 3) for x in st.normals(numel)], dtype=torch.float32).reshape(shp)
    else:
        b = info["base"][name]
        if hasattr(b, "weight"):
            # data variables: re-put as they are, or with the same stored numbers under another mask (an observed 0.0 vs a missing entry
            # is exactly that), or with other numbers under the same mask
            from leaspy.utils.weighted_tensor import WeightedTensor

            variant = st.choice(["same", "same", "mask", "mask", "values", "both"]) if vid else "same"
            if variant == "same" or b.weight is None:
                return b
            w, v = b.weight, b.value
            if variant in ("mask", "both"):
                keep = torch.tensor([st.bernoulli(0.8) for _ in range(w.numel())]).reshape(w.shape)
                w2 = w & keep if w.dtype == torch.bool else (w * keep.to(w.dtype))
                if bool((w2 != 0).any()):
                    w = w2
            if variant in ("values", "both") and v.is_floating_point():
                v = v + 0.01 * torch.tensor(st.normals(v.numel()), dtype=v.dtype).reshape(v.shape)
            return WeightedTensor(v, w)
        z = torch.tensor(st.normals(b.numel()), dtype=torch.float32).reshape(b.shape)
        if name.endswith("_std") or name == "noise_std":
            t = (b * torch.exp(0.2 * z)).to(b.dtype)
        elif name in info["ind_names"]:
            t = (b + 0.3 * z * (b.std() + 0.1)).to(b.dtype)
        elif name == "probs":
            p = (b * torch.exp(0.2 * z)).to(b.dtype)
            t = p / p.sum()
        else:
            t = (b + 0.05 * z * (b.abs() + 0.1)).to(b.dtype)
    if nonfinite:
        t = t.clone()
        flat = t.reshape(-1)
        flat[st.randint(0, flat.numel() - 1)] = {"nan": float("nan"), "inf": float("inf"), "-inf": float("-inf")}[nonfinite]
    return t


def _resolve(name, sel, info, plan, pool_hint=None):
    """Resolve symbolic selectors used for real-DAG plans."""
    if not name.startswith("@"):
        return name
    if name == "@ind":
        pool = info["ind_names"]
    elif name == "@pop":
        pool = info["pop_like"]
    elif name == "@data":
        pool = info["data_names"]
    elif name == "@derived":
        pool = sorted(n for n, t in info["tags"].items() if n not in info["settable"])
    elif name == "@indtag":
        pool = sorted(n for n, t in info["tags"].items() if t == "ind")
    else:
        pool = sorted(info["all_names"])
    return pool[sel % len(pool)] if pool else None


def _outcome_real(fn):
    from leaspy.exceptions import LeaspyInputError

    try:
        return ("ok", fn())
    except LeaspyInputError as e:
        if type(e) is not LeaspyInputError:
            # raised by a definition (e.g. LeaspyModelInputError from the orthonormal basis), not by the state protocol
            return ("exc", type(e).__name__ + ": " + str(e)[:200])
        return ("input_error", str(e))
    except ToyBoom as e:
        return ("boom", str(e))
    except Exception as e:  # any other exception type
        return ("exc", type(e).__name__ + ": " + str(e)[:200])


def _outcome_ref(ev: RefEval, name):
    try:
        return ("ok", ev.value(name))
    except Unset as e:
        return ("input_error", e.name)
    except Exception as e:
        return ("exc", type(e).__name__ + ": " + str(e)[:200])


def run_plan(plan: dict) -> dict:
    from leaspy.variables.state import State

    out = new_outcome(plan)
    log = EventLog()
    ctx = ToyCtx()
    graph = plan["graph"]
    torch.set_num_threads(1)
    with warnings.catch_warnings():
        warnings.simplefilter("ignore")
        if graph["type"] == "toy":
            dag, info = build_toy(graph, ctx)
            info["all_names"] = [x["name"] for x in graph["nodes"]]
            info["ind_names"] = [x["name"] for x in graph["nodes"] if x["role"] == "input" and x["tag"] == "ind"]
            info["pop_like"] = [x["name"] for x in graph["nodes"] if x["role"] == "input" and x["tag"] == "pop"]
            info["data_names"] = []
        else:
            try:
                dag, info = build_model_graph(graph)
            except Exception as e:
                out["discarded"] = f"setup:{type(e).__name__}"
                out["digest"] = "setup-failed"
                return out
            info["all_names"] = list(dag.variables)
            out["counters"]["probe.real_dag_history"] += 1
            out["counters"][f"model.{graph['kind']}"] += 1
    variables = dag.variables
    all_names = sorted(variables)
    settable = set(info["settable"])
    n = info["n"]

    states = [State(dag, auto_fork_type=_fork(plan["fork0"]))]
    refs = [RefState(variables, plan["fork0"])]
    stacks = [contextlib.ExitStack()]
    since_assign = [None]  # per state: {"name":..., "reads": [...]} since last assignment (for probes)
    opkinds = []
    occ_trace = []
    probes = out["counters"]

    def check_coherence(sid, where):
        s, r = states[sid], refs[sid]
        ev = r.evaluator()
        for nm in all_names:
            cell = s._values[nm]
            var = variables[nm]
            from leaspy.variables.specs import Hyperparameter, IndepVariable

            if isinstance(var, Hyperparameter):
                if not same(cell, var.value):
                    violation(out, "cache_coherence", f"hyperparameter_cell_changed:{_gname(nm)}", f"{where}: {nm}")
                continue
            if isinstance(var, IndepVariable):
                if not same(cell, r.indep.get(nm)):
                    violation(out, "independent_value", f"independent_cell_differs_from_protocol_model:{where.split(':')[0]}",
                              f"{where}: {nm}: {describe_diff(cell, r.indep.get(nm))}")
                continue
            if cell is None:
                continue
            kind, exp = _outcome_ref(ev, nm)
            if kind != "ok":
                violation(out, "cache_coherence", f"cached_cell_but_not_computable:{where.split(':')[0]}",
                          f"{where}: cell {nm} is cached although reference says {kind} {exp}")
            elif not same(cell, exp):
                violation(out, "cache_coherence", f"stale_cached_cell:{where.split(':')[0]}",
                          f"{where}: cell {nm}: {describe_diff(cell, exp)}")
        # clones share no mutable cell
        for other in range(len(states)):
            if other != sid and states[other]._values is s._values:
                violation(out, "clone_isolation", "clone_shares_values_dict", where)

    def occupancy(sid):
        s = states[sid]
        bits = 0
        for i, nm in enumerate(all_names):
            if s._values[nm] is not None:
                bits |= 1 << i
        return bits

    def _gname(nm):
        return nm if graph["type"] == "model" else nm[:2].rstrip("0123456789")

    def do_read(sid, nm, where, only_record=False):
        s, r = states[sid], refs[sid]
        ctx.real = True
        try:
            got = _outcome_real(lambda: s[nm])
        finally:
            ctx.real = False
        exp = _outcome_ref(r.evaluator(), nm)
        # (values below leaspy's set-ordered automatic sum depend on PYTHONHASHSEED -- a C11 matter -- and stay out of the digest)
        log.add("read", sid, nm, got[0], (tdigest(got[1]) if nm not in HASH_ORDER_SENSITIVE else "-") if got[0] == "ok" else got[1][:40])
        if got[0] == "boom":
            probes["probe.definition_raised_midread"] += 1
            probes["fault.raising_definition"] += 1
            return
        if exp[0] == "input_error" and got[0] == "exc" and not got[1].startswith(("TypeError", "AttributeError")):
            probes["probe.doubly_failing_read"] += 1   # (same remark, other order)
        elif exp[0] == "input_error":
            if got[0] != "input_error":
                violation(out, "unset_read", f"unset_input_not_reported_as_input_error:{got[0]}",
                          f"{where}: read {nm} needs unset '{exp[1]}' but got {got[0]} {str(got[1])[:200]}")
            else:
                probes["probe.read_unset_failed"] += 1
                probes["fault.unset_input"] += 1
        elif exp[0] == "exc" and got[0] == "input_error" and _needs_unset(variables, r.indep, nm):
            # two reasons to fail at once (an unset input *and* a definition that raises on the current values): which one is
            # reported first depends on the evaluation order, which nothing specifies -> either failure is right
            probes["probe.doubly_failing_read"] += 1
        elif exp[0] == "exc":
            # the definition itself raises on these values: the state must propagate that same exception
            if got[0] != "exc" or got[1].split(":")[0] != exp[1].split(":")[0]:
                violation(out, "read_value", f"reference_raises_but_state_returns:{got[0]}", f"{where}: {nm}: ref {exp[1]} vs {got}")
            else:
                probes["probe.definition_own_exception_propagated"] += 1
        else:
            if got[0] != "ok":
                violation(out, "read_value", f"read_failed_although_computable:{got[0]}", f"{where}: read {nm}: {got[1]}")
            elif not same(got[1], exp[1]):
                violation(out, "read_value", f"stale_or_wrong_read:{where.split(':')[0]}", f"{where}: read {nm}: {describe_diff(got[1], exp[1])}")
        if since_assign[sid] is not None:
            since_assign[sid]["reads"].append(nm)

    for i, op in enumerate(plan["ops"]):
        k = op["op"]
        sid = op.get("sid", 0)
        if sid >= len(states):
            opkinds.append("noop")
            continue
        s, r = states[sid], refs[sid]
        where = f"{k}:op{i}"
        opkinds.append(k)
        if k == "init":
            for st_i in ([sid] if "sid" in op else [0]):
                ss, rr = states[st_i], refs[st_i]
                for nm in sorted(settable):
                    if nm in op.get("unset", []):
                        continue
                    v = _value_for(plan, info, nm, 0, rr)
                    ss[nm] = v
                    rr.assign(nm, v)
                since_assign[st_i] = None
                log.add("init", st_i)
        elif k in ("set", "put"):
            nm = _resolve(op["name"], op["sel"], info, plan)
            if nm is None:
                continue
            if op.get("guard_fork") and r.mode is None:
                # a per-row revert needs a snapshot: switch auto-fork on (recorded operation)
                mode = "REF" if op["sel"] % 2 else "COPY"
                s.auto_fork_type = _fork(mode)
                r.mode = mode
                log.add("mode", sid, mode)
            v = _value_for(plan, info, nm, op["v"], r, op.get("nonfinite"))
            if op.get("nonfinite"):
                probes["fault.nonfinite_assignment"] += 1
            if k == "set":
                s[nm] = v
                r.assign(nm, v)
                log.add("set", sid, nm, tdigest(v))
            else:
                cur = r.indep.get(nm)
                ndix = op["ndix"] if not hasattr(v, "weight") else 0
                shape = tuple(v.shape)
                ndix = min(ndix, len(shape))
                idx = tuple(op["ix"][d] % shape[d] for d in range(ndix))
                pv = v[idx] if ndix else v
                if hasattr(v, "weight"):
                    continue
                got = _outcome_real(lambda: s.put(nm, pv, indices=idx, accumulate=op["accumulate"]))
                if cur is None and (ndix > 0 or op["accumulate"]):
                    # needs the current value: must be reported as an input error, state unchanged
                    if got[0] != "input_error":
                        violation(out, "unset_read", f"put_on_unset_not_input_error:{got[0]}", f"{where}: put on unset {nm}: {got}")
                    else:
                        probes["probe.read_unset_failed"] += 1
                    log.add("put_unset", sid, nm, got[0])
                else:
                    if got[0] != "ok":
                        violation(out, "read_value", f"put_failed:{got[0]}", f"{where}: {got[1]}")
                    if ndix == 0:
                        newv = (cur + pv) if op["accumulate"] else pv
                    else:
                        newv = cur.index_put(tuple(map(torch.tensor, idx)), pv, accumulate=op["accumulate"])
                        if op["accumulate"]:
                            probes["probe.put_indices_accumulate"] += 1
                    r.assign(nm, newv)
                    log.add("put", sid, nm, idx, op["accumulate"], tdigest(newv))
            since_assign[sid] = {"name": nm, "reads": []}
        elif k == "update":
            items = []
            for it in op["items"]:
                nm = _resolve(it["name"], it["sel"], info, plan)
                if nm is None or any(nm == x[0] for x in items):
                    continue
                items.append((nm, _value_for(plan, info, nm, it["v"], r)))
            if len(items) < 2:
                continue
            probes["probe.bulk_update"] += 1
            if op["form"] == "dict":
                got = _outcome_real(lambda: s.update(dict(items)))
            elif op["form"] == "pairs":
                got = _outcome_real(lambda: s.update(list(items)))
            else:
                got = _outcome_real(lambda: s.update(**dict(items)))
            if got[0] != "ok":
                violation(out, "read_value", f"update_failed:{got[0]}", f"{where}: {got[1]}")
            for nm, v in items:
                r.assign(nm, v)
            since_assign[sid] = {"name": items[-1][0], "reads": []}
            log.add("update", sid, [nm for nm, _ in items], op["form"])
            if op["then_revert"] and r.snapshot is not None:
                # the last assignment of the call is the revertible one
                got = _outcome_real(lambda: s.revert())
                if got[0] != "ok":
                    violation(out, "revert_protocol", f"revert_failed:{got[0]}", f"{where}: {got[1]}")
                nm0, old0 = r.snapshot
                r.indep[nm0] = old0
                r.snapshot = None
                since_assign[sid] = None
                probes["probe.revert_after_bulk_update"] += 1
                log.add("revert_after_update", sid, nm0)
        elif k == "set_none":
            nm = _resolve(op["name"], op["sel"], info, plan)
            if nm is None:
                continue
            s[nm] = None
            r.assign(nm, None)
            since_assign[sid] = {"name": nm, "reads": []}
            log.add("set_none", sid, nm)
        elif k == "read":
            nm = _resolve(op["name"], op["sel"], info, plan)
            if nm is None:
                continue
            if op.get("only_ind"):
                # allowed only while the pending assignment exists; degrade to a plain read otherwise
                pass
            do_read(sid, nm, where)
        elif k == "read_all":
            for nm in all_names:
                do_read(sid, nm, where)
        elif k == "precompute":
            ctx.real = True
            try:
                got = _outcome_real(lambda: s.precompute_all())
            finally:
                ctx.real = False
            ev = r.evaluator()
            need_unset = any(_outcome_ref(ev, nm)[0] == "input_error" for nm in all_names)
            log.add("precompute", sid, got[0])
            if got[0] == "boom":
                probes["probe.definition_raised_midread"] += 1
            elif need_unset:
                if got[0] != "input_error":
                    violation(out, "unset_read", f"precompute_with_unset_not_input_error:{got[0]}", f"{where}: {got}")
                else:
                    probes["probe.precompute_failed_midway"] += 1
            elif got[0] not in ("ok", "exc"):
                violation(out, "read_value", f"precompute_failed:{got[0]}", f"{where}: {got[1]}")
            if since_assign[sid] is not None:
                since_assign[sid]["reads"].append("*")
        elif k == "revert":
            got = _outcome_real(lambda: s.revert())
            log.add("revert", sid, got[0])
            if r.snapshot is None:
                if got[0] != "input_error":
                    violation(out, "revert_protocol", f"revert_without_snapshot_not_refused:{got[0]}", f"{where}: {got}")
            else:
                if got[0] != "ok":
                    violation(out, "revert_protocol", f"revert_failed:{got[0]}", f"{where}: {got[1]}")
                nm, old = r.snapshot
                r.indep[nm] = old
                r.snapshot = None
                if since_assign[sid] and since_assign[sid]["reads"]:
                    probes["probe.revert_after_read"] += 1
                probes["probe.full_revert"] += 1
            since_assign[sid] = None
        elif k == "revert_rows":
            # precondition bookkeeping: snapshot exists, for an individual variable, only row-wise reads since
            sa = since_assign[sid]
            ok_pre = (
                r.snapshot is not None and sa is not None and sa["name"] == r.snapshot[0]
                and info["tags"].get(sa["name"]) == "ind" and sa["name"] in info["ind_names"]
                and all(info["tags"].get(x) == "ind" for x in sa["reads"])
            )
            if ok_pre:
                nm, old = r.snapshot
                cur = r.indep.get(nm)
                # finite rows only (non-finite current values in reverted rows are C02's business)
                ev = r.evaluator()
                finite = True
                if old is not None and cur is not None:
                    prev = RefEval(variables, {**r.indep, nm: old})
                    for cand in [nm] + sorted(descendants(variables, {nm})):
                        if info["tags"].get(cand) != "ind":
                            continue
                        for e in (ev, prev):
                            kk, vv = _outcome_ref(e, cand)
                            if kk == "ok":
                                tv = vv.value if hasattr(vv, "weight") else vv
                                if not torch.isfinite(tv).all():
                                    finite = False
                if not finite:
                    ok_pre = False
            if not ok_pre:
                # degrade to a recorded no-op (total operations: every subsequence of a plan is a plan)
                opkinds[-1] = "revert_rows_skipped"
                log.add("revert_rows_skipped", sid)
                continue
            mask = torch.tensor(op["mask"][:n] + [False] * max(0, n - len(op["mask"])), dtype=torch.bool)
            # "subset = True <=> revert": the mask is any tensor of truth values (the state casts it to bool)
            mdt = [torch.bool, torch.bool, torch.uint8, torch.int64, torch.int32, torch.float32][(i + sum(op["mask"])) % 6]
            if mdt is not torch.bool:
                probes["probe.row_mask_not_bool_dtype"] += 1
            got = _outcome_real(lambda: s.revert(mask.to(mdt)))
            log.add("revert_rows", sid, op["mask"], str(mdt), got[0])
            nm, old = r.snapshot
            cur = r.indep.get(nm)
            if got[0] != "ok":
                violation(out, "revert_protocol", f"partial_revert_failed:{got[0]}", f"{where}: {got[1]}")
            if old is None or cur is None:
                r.indep[nm] = None
            else:
                m = mask.reshape((n,) + (1,) * (cur.ndim - 1))
                r.indep[nm] = torch.where(m, old, cur)
            r.snapshot = None
            if mask.any() and not mask.all():
                probes["probe.partial_revert_mixed"] += 1
            if sa["reads"]:
                probes["probe.revert_after_read"] += 1
            since_assign[sid] = None
        elif k == "clone":
            c = s.clone(disable_auto_fork=op["disable_auto_fork"], keep_last_fork=op["keep_last_fork"])
            states.append(c)
            refs.append(r.clone(op["disable_auto_fork"], op["keep_last_fork"]))
            stacks.append(contextlib.ExitStack())
            since_assign.append(copy.deepcopy(since_assign[sid]) if op["keep_last_fork"] else None)
            log.add("clone", sid, len(states) - 1)
            probes["probe.clone_then_diverge"] += 1
            # no shared tensors for mutable cells
            for nm in all_names:
                a, b = s._values[nm], c._values[nm]
                from leaspy.variables.specs import Hyperparameter

                if a is not None and not isinstance(variables[nm], Hyperparameter) and shares_storage(a, b):
                    violation(out, "clone_isolation", "clone_shares_tensor_storage", f"{where}: {nm}")
            check_coherence(len(states) - 1, where)
        elif k == "mode":
            s.auto_fork_type = _fork(op["mode"])
            r.mode = op["mode"]
            if op["mode"] == "COPY":
                probes["probe.fork_copy_mode"] += 1
            log.add("mode", sid, op["mode"])
        elif k == "fork_enter":
            r.mode_stack.append(r.mode)
            if op["default"]:
                stacks[sid].enter_context(s.auto_fork())
                r.mode = "REF"
            else:
                stacks[sid].enter_context(s.auto_fork(_fork(op["mode"])))
                r.mode = op["mode"]
            if r.mode == "COPY":
                probes["probe.fork_copy_mode"] += 1
            log.add("fork_enter", sid, r.mode)
        elif k == "fork_exit":
            if r.mode_stack:
                # ExitStack pops in LIFO order: emulate a single-level exit by rebuilding the stack
                prev = r.mode_stack.pop()
                _pop_one(stacks[sid])
                r.mode = prev
                log.add("fork_exit", sid, prev)
            else:
                opkinds[-1] = "noop"
        elif k == "clear":
            s.clear()
            r.indep = {}
            r.snapshot = None
            since_assign[sid] = None
            log.add("clear", sid)
        elif k == "is_set":
            nm = _resolve(op["name"], op["sel"], info, plan)
            if nm is None:
                continue
            got = s.is_variable_set(nm)
            exp = r.indep.get(nm) is not None
            log.add("is_set", sid, nm, got)
            if bool(got) != exp:
                violation(out, "independent_value", "is_variable_set_wrong", f"{where}: {nm}: got {got} expected {exp}")
        elif k == "misuse":
            what = op["what"]
            der = sorted(x for x in all_names if x not in settable and not _is_hyper(variables[x]))
            hyp = sorted(x for x in all_names if _is_hyper(variables[x]))
            if what == "set_derived" and der:
                nm = der[op["sel"] % len(der)]
                got = _outcome_real(lambda: s.__setitem__(nm, torch.zeros(1)))
            elif what == "set_hyper" and hyp:
                nm = hyp[op["sel"] % len(hyp)]
                got = _outcome_real(lambda: s.__setitem__(nm, torch.zeros(1)))
            elif what == "set_unknown":
                got = _outcome_real(lambda: s.__setitem__("no_such_variable", torch.zeros(1)))
            elif what == "read_unknown":
                got = _outcome_real(lambda: s["no_such_variable"])
            elif what == "del":
                got = _outcome_real(lambda: s.__delitem__(all_names[op["sel"] % len(all_names)]))
                got = ("input_error", "") if got[0] == "exc" and got[1].startswith("NotImplementedError") else got
            else:
                got = ("input_error", "")
            log.add("misuse", sid, what, got[0])
            if got[0] != "input_error":
                violation(out, "revert_protocol", f"misuse_not_refused:{what}:{got[0]}", f"{where}: {got}")
            probes["probe.misuse_refused"] += 1
        elif k == "arm_raise":
            if op["name"] in variables:
                ctx.armed[op["name"]] = op["after"]
                log.add("arm", op["name"], op["after"])
        else:  # pragma: no cover
            raise ValueError(k)
        check_coherence(sid, where)
        occ_trace.append(occupancy(sid))
        if len(out["violations"]) > 5:
            break
    # final forced read of every node of every state
    ctx.armed.clear()
    for sid in range(len(states)):
        for nm in all_names:
            do_read(sid, nm, f"final:s{sid}")
        check_coherence(sid, f"final:s{sid}")
    for st_ in stacks:
        st_.close()

    out["counters"]["ops.total"] += len(opkinds)
    for kname in opkinds:
        out["counters"][f"ops.{kname}"] += 1
    out["counters"]["graph." + graph["type"]] += 1
    import hashlib

    run_key = hashlib.sha1((",".join(opkinds) + "|" + ",".join(map(str, occ_trace))).encode()).hexdigest()[:16]
    out["keys"].add("run:" + run_key)
    for a, b, c in zip(opkinds, opkinds[1:], opkinds[2:]):
        out["keys"].add(f"g3:{a}>{b}>{c}")
    out["nontrivial"] = any(v > 0 for kk, v in out["counters"].items() if kk.startswith("probe.") and kk != "probe.real_dag_history")
    out["digest"] = log.digest()
    out["sample"] = {"graph": graph["type"] if graph["type"] == "toy" else graph["kind"],
                     "nodes": len(all_names), "ops": [_short(o) for o in plan["ops"][:25]]}
    if out["violations"]:
        out["sample"]["log_tail"] = log.tail[-15:]
    return out


def _needs_unset(variables, indep, name) -> bool:
    from leaspy.variables.specs import Hyperparameter, IndepVariable
    from ..ref.refeval import ancestors_of

    for a in ancestors_of(variables, name) | {name}:
        v = variables[a]
        if isinstance(v, IndepVariable) and not isinstance(v, Hyperparameter) and indep.get(a) is None:
            return True
    return False


def _is_hyper(var):
    from leaspy.variables.specs import Hyperparameter

    return isinstance(var, Hyperparameter)


def _pop_one(stack: contextlib.ExitStack):
    """Exit only the most recently entered context of an ExitStack."""
    if stack._exit_callbacks:
        is_sync, cb = stack._exit_callbacks.pop()
        cb(None, None, None)


def _short(o):
    return {k: v for k, v in o.items() if k not in ("sel", "v", "keep")}


# =========================================================================== shrinking
def shrink(plan: dict):
    ops = plan["ops"]
    head = [o for o in ops if o.get("keep")]
    rest = [o for o in ops if not o.get("keep")]
    for cand in ddmin_list(rest):
        p = dict(plan)
        p["ops"] = head + cand
        yield p
    # simplify: drop unset list, switch initial fork mode to REF
    if ops and ops[0].get("unset"):
        p = copy.deepcopy(plan)
        p["ops"][0]["unset"] = []
        yield p
    g = plan["graph"]
    if g["type"] == "toy":
        # drop derived nodes nobody refers to (in ops or as parents)
        used = {p_ for x in g["nodes"] for p_ in x["parents"]} | {o.get("name") for o in ops}
        for x in list(g["nodes"]):
            if x["role"] == "derived" and x["name"] not in used:
                p = copy.deepcopy(plan)
                p["graph"]["nodes"] = [y for y in g["nodes"] if y["name"] != x["name"]]
                # keep the graph valid: parents of the removed node must keep at least one child or parent
                names = {y["name"] for y in p["graph"]["nodes"]}
                has_child = {q for y in p["graph"]["nodes"] for q in y["parents"]}
                if all(y["parents"] or y["name"] in has_child for y in p["graph"]["nodes"]) and names:
                    yield p
