"""C02 — a rejected proposal leaves no trace in the state (stepsim)."""
from __future__ import annotations

import copy
import hashlib
import warnings

import torch

from ..core.driver import EventLog, ddmin_list, new_outcome, tdigest, violation
from ..core.rng import SimRng, Stream
from ..ref.refeval import Unset, describe_diff, same
from . import stepsim

PROPERTY = "C02"
TIERS = {
    "quick": {"runs": 1200, "budget_s": 110, "chunk": 4},
    "thorough": {"runs": 12000, "budget_s": 900, "chunk": 8},
}
REQUIRED_PROBES = {
    "quick": ["probe.partial_reject_mixed", "probe.full_reject", "probe.reject_after_foreign_read"],
    "thorough": ["probe.partial_reject_mixed", "probe.full_reject", "probe.reject_after_foreign_read", "probe.nonfinite_proposal_rejected",
                 "probe.all_rejected_ind", "probe.none_rejected_ind", "probe.step_after_mstep"],
}
DESCRIBE = {
    "rule": "one case = one model kind + cohort + sampler configuration and a seeded sequence of 3-30 real sampler.sample() calls (all latent "
            "variables, Gibbs / FastGibbs / Metropolis-Hastings / individual Gibbs) interleaved with real M-steps, with scripted proposals "
            "(ordinary / 6-sigma / overflowing), scripted decisions (reject none / all / one / random subset / alternate, realised through the "
            "uniform served relative to the from-scratch acceptance ratio) and foreign reads injected between proposal and decision; "
            "distinct = different digest of (variable, sampler kind, realised rejection mask, foreign-read count) sequence; non-trivial = at least one rejection happened",
    "distinct_measure": "digest of the sequence of (variable, sampler kind, realised rejection mask, #foreign reads, proposal style)",
    "real": ["leaspy samplers (gibbs.py, base.py)", "State / DAG / specs", "all model kinds' variable graphs", "TensorMcmcSaemAlgorithm._initialize_algo / _maximization_step",
             "Dataset / readers", "torch CPU kernels"],
    "stub": ["torch.randn / torch.rand as seen from leaspy.samplers (served by the simulator)", "random.shuffle in samplers.gibbs", "stdout"],
    "assumptions": ["the reference replays each block on plain tensors with the same torch op as the sampler (index_put / add), so equality is bit-exact",
                    "only contract-allowed foreign reads are injected: any variable before a full rejection, row-wise variables before a per-individual rejection",
                    "mixture model excluded from this engine's default swarm (its individual sampler re-weights regularities; covered for state consistency only in thorough tier)"],
}

PROPOSALS = ["ordinary", "ordinary", "ordinary", "tail", "huge", "huge_one", "zero"]
DEC_POP = ["natural", "natural", "reject", "accept", "tie", "zero", "one_minus", "just_above", "just_below"]
DEC_IND = ["natural", "random", "random", "reject_all", "accept_all", "reject_one", "accept_one", "alternate"]


def make_plan(seed: int, tier: str) -> dict:
    rng = SimRng(seed)
    st = rng.stream("plan")
    if st.bernoulli(0.08):
        # user-defined variable graph (public API: NamedVariables / VariablesDAG / State / sampler_factory) whose derived weighted
        # tensor has weights that depend on the sampled latent variable - no shipped model has that
        return {"seed": seed, "tier": tier, "engine": "stepsim_c02", "type": "custom_graph", "n": st.choice([3, 5, 8]), "visits": st.randint(2, 5),
                "steps": st.randint(4, 12 if tier == "quick" else 30), "scale": st.choice([1.0, 5.0, 20.0]), "fork": st.choice(["REF", "COPY"]),
                "gseed": st.u64() & 0x7FFFFFFF, "read_between": st.bernoulli(0.5)}
    cfg = stepsim.gen_world_cfg(rng.stream("world"), allow_mixture=True)
    n_steps = st.randint(3, 14 if tier == "quick" else 30)
    steps = []
    fault_free = st.bernoulli(0.15)
    it = 1
    for i in range(n_steps):
        if i > 0 and st.bernoulli(0.15):
            steps.append({"mstep": it})
            it += 1
            continue
        is_ind = st.bernoulli(0.55)
        s = {"sel": st.randint(0, 63), "ind": is_ind, "t_inv": st.choice([1.0, 1.0, 0.5, 0.1, 0.013]),
             "proposal": "ordinary" if fault_free else st.choice(PROPOSALS),
             "decision": "natural" if fault_free else st.choice(DEC_IND if is_ind else DEC_POP),
             "foreign": "none" if fault_free else st.choice(["none", "some", "some", "all"]),
             "order": st.choice(["seeded", "seeded", "identity", "reversed"])}
        if s["proposal"] in ("huge", "huge_one"):
            s["huge_scale"] = st.choice([1e3, 1e4, 1e6])
        steps.append(s)
    return {"seed": seed, "tier": tier, "engine": "stepsim_c02", "world": cfg, "steps": steps}


def _followup(*, t, tau):
    from leaspy.utils.weighted_tensor import WeightedTensor

    return WeightedTensor(t - tau, t >= tau)     # observation window: value and *weight* depend on the latent reference time


def _nll_attach_ind(*, followup, y):
    return (0.5 * (followup - y) ** 2).sum(dim=1)


def _n_informative_ind(*, followup):
    return followup.weight.to(torch.float32).sum(dim=1)


def _n_informative(*, n_informative_ind):
    return n_informative_ind.sum()


def run_custom_graph(plan: dict, out: dict, log: EventLog) -> None:
    """Real individual Gibbs sampler on a user-defined graph; after every step every variable equals its from-scratch value."""
    from leaspy.samplers import sampler_factory
    from leaspy.variables.dag import VariablesDAG
    from leaspy.variables.distributions import Normal
    from leaspy.variables.specs import DataVariable, Hyperparameter, IndividualLatentVariable, LinkedVariable, NamedVariables
    from leaspy.variables.state import State, StateForkType

    from ..ref.refeval import RefEval

    C = out["counters"]
    C["type.custom_graph"] += 1
    n, v = plan["n"], plan["visits"]
    st = Stream(plan["gseed"], "data")
    t = torch.tensor([[round(66.0 + 2.0 * j + st.uniform(0, 1.5), 2) for j in range(v)] for _ in range(n)])
    specs = {
        "tau_mean": Hyperparameter(70.0), "tau_std": Hyperparameter(5.0),
        "tau": IndividualLatentVariable(Normal("tau_mean", "tau_std")),
        "t": DataVariable(), "y": DataVariable(),
        "followup": LinkedVariable(_followup), "nll_attach_ind": LinkedVariable(_nll_attach_ind),
        "n_informative_ind": LinkedVariable(_n_informative_ind), "n_informative": LinkedVariable(_n_informative),
    }
    state = State(VariablesDAG.from_dict(NamedVariables(specs)), auto_fork_type=getattr(StateForkType, plan["fork"]))
    with state.auto_fork(None):
        state["t"] = t
        state["y"] = (t - 70.5).clamp(min=0.0)
        state["tau"] = torch.tensor([[round(68.0 + st.uniform(0, 6), 2)] for _ in range(n)])
    sampler = sampler_factory("Gibbs", IndividualLatentVariable, name="tau", shape=(1,), n_patients=n, scale=plan["scale"])
    torch.manual_seed(plan["gseed"])
    names = sorted(state.dag.variables)
    pattern = []
    mst = Stream(plan["gseed"], "manual")
    for si in range(plan["steps"]):
        if plan["read_between"]:
            state["n_informative_ind"]      # (row-wise reads are cached before the proposal, as a monitor would do)
        if si % 3 == 2:
            # a hand-driven Metropolis step through the public State API: proposal, reads, per-individual decision kept as a 0/1
            # vector of some dtype ("subset = True <=> revert": any tensor of truth values)
            old = state["tau"].clone()
            prop = old + torch.tensor([[round(mst.normal() * plan["scale"] * 0.2, 3)] for _ in range(n)])
            state["tau"] = prop
            state["nll_attach_ind"]
            rej = torch.tensor([mst.bernoulli(0.5) for _ in range(n)])
            mdt = mst.choice([torch.bool, torch.uint8, torch.int64, torch.int32, torch.float32])
            state.revert(rej.to(mdt))
            C["probe.manual_step_mask_dtype." + str(mdt).split(".")[-1]] += 1
            exp_tau = torch.where(rej.unsqueeze(-1), old, prop)
            if not same(state["tau"], exp_tau):
                violation(out, "latent_value_after_step", f"latent_differs_from_accept_reject_reference:ind:custom_graph:mask_{str(mdt).split('.')[-1]}",
                          f"step{si}: rejected {rej.tolist()}: {describe_diff(state['tau'], exp_tau)}")
                break
            acc = ~rej
        else:
            sampler.sample(state, temperature_inv=1.0)
            acc = sampler.acceptation_history[-1].bool()
        pattern.append("".join("a" if a else "r" for a in acc.tolist()))
        if 0 < int(acc.sum()) < n:
            C["probe.partial_reject_mixed"] += 1
            C["probe.custom_graph_partial_rejection"] += 1
        indep = {nm: state[nm] for nm in ("t", "y", "tau")}
        ev = RefEval(state.dag.variables, indep)
        for nm in names:
            if nm in indep:
                continue
            try:
                exp = ev.value(nm)
            except Exception:
                continue
            cell = state._values.get(nm)
            if cell is not None and not same(cell, exp):
                violation(out, "cache_after_step", "derived_value_differs_from_scratch:ind:custom_graph", f"step{si}: cached {nm}: {describe_diff(cell, exp)}; decisions {pattern[-1]}")
                break
            got = state[nm]
            if not same(got, exp):
                violation(out, "read_after_step", "derived_value_differs_from_scratch:ind:custom_graph", f"step{si}: read {nm}: {describe_diff(got, exp)}; decisions {pattern[-1]}")
                break
        log.add("custom", si, pattern[-1], tdigest(state["tau"]))
        if out["violations"]:
            break
    out["keys"].add("run:" + hashlib.sha1(repr(("custom", plan["n"], plan["visits"], plan["fork"], tuple(pattern))).encode()).hexdigest()[:16])
    out["nontrivial"] = any("r" in p_ for p_ in pattern)
    out["sample"] = {"type": "custom_graph", "n": n, "visits": v, "fork": plan["fork"], "decisions": pattern[:8]}


def run_plan(plan: dict) -> dict:
    out = new_outcome(plan)
    log = EventLog()
    torch.set_num_threads(1)
    if plan.get("type") == "custom_graph":
        try:
            with warnings.catch_warnings():
                warnings.simplefilter("ignore")
                run_custom_graph(plan, out, log)
        except Exception as e:
            out["discarded"] = f"custom_graph:{type(e).__name__}:{str(e)[:80]}"
        out["digest"] = log.digest()
        return out
    try:
        world = stepsim.StepWorld(plan["world"], log, out["counters"])
    except Exception as e:
        out["discarded"] = f"setup:{type(e).__name__}"
        out["digest"] = "setup-failed"
        return out
    keyparts = []
    C = out["counters"]
    C[f"model.{plan['world']['kind']}"] += 1
    C[f"sampler.{plan['world']['sampler_pop']}"] += 1
    after_mstep = False
    with world.installed(), warnings.catch_warnings():
        warnings.simplefilter("ignore")
        for si, step in enumerate(plan["steps"]):
            if "mstep" in step:
                try:
                    world.mstep(step["mstep"])
                    after_mstep = True
                    C["steps.mstep"] += 1
                except Exception as e:
                    # a collapsed variance etc. is another property's business: stop this history here
                    log.add("mstep_raised", type(e).__name__)
                    C["steps.mstep_raised"] += 1
                    break
                continue
            names = world.ind_names if step["ind"] else world.pop_names
            var = names[step["sel"] % len(names)]
            rec = world.sample(var, step["t_inv"], step)
            C["steps.sample"] += 1
            C["steps.blocks"] += len(rec.blocks)
            if after_mstep:
                C["probe.step_after_mstep"] += 1
            if rec.error and rec.blocks and rec.blocks[-1].accepted is not None and rec.error.startswith("sample:"):
                # the decision had been taken: an exception while reverting / recording it leaves a half-applied proposal behind
                violation(out, "revert_completes", f"exception_after_decision:{'ind' if rec.is_ind else 'pop'}:{rec.error.split(':')[1].strip()}",
                          f"step {si} {var} [{rec.kind}]: {rec.error[:300]}")
                break
            if rec.error:
                # The sampler (or a definition evaluated at an extreme proposal) raised: the proposal was neither accepted
                # nor rejected.  C02 promises nothing about that (no completion clause): legitimate abort, counted.
                C["abort.sampler_raised:" + (rec.error.split(":")[1].strip() if ":" in rec.error else "?")] += 1
                log.add("abort", rec.error[:80])
                break
            check_step(world, rec, out, si, step, keyparts)
            if out["violations"]:
                break  # later steps would only inherit the same contamination
    out["keys"].add("run:" + hashlib.sha1("|".join(keyparts).encode()).hexdigest()[:16])
    out["nontrivial"] = C["probe.full_reject"] + C["probe.partial_reject_mixed"] + C["probe.all_rejected_ind"] > 0
    out["digest"] = log.digest()
    out["sample"] = {"world": {k: v for k, v in plan["world"].items() if k != "gseed"}, "steps": plan["steps"][:12], "realised": keyparts[:12]}
    if out["violations"]:
        out["sample"]["log_tail"] = log.tail[-12:]
    return out


def check_step(world, rec, out, si, step, keyparts):
    C = out["counters"]
    state = world.state
    var = rec.var
    where = f"step{si}:{var}:{rec.kind}"
    # ---- probes / key
    rej_desc = []
    for b in rec.blocks:
        if b.accepted is None:
            continue
        acc = torch.as_tensor(b.accepted).reshape(-1).to(torch.bool)
        n_rej = int((~acc).sum())
        if rec.is_ind:
            if 0 < n_rej < acc.numel():
                C["probe.partial_reject_mixed"] += 1
            elif n_rej == acc.numel():
                C["probe.all_rejected_ind"] += 1
            else:
                C["probe.none_rejected_ind"] += 1
        elif n_rej:
            C["probe.full_reject"] += 1
        else:
            C["probe.accept_pop"] += 1
        if n_rej and b.foreign:
            C["probe.reject_after_foreign_read"] += 1
        if n_rej and b.nonfinite_eval:
            C["probe.nonfinite_proposal_rejected"] += 1
        if b.realised is False:
            C["probe.target_not_realisable"] += 1
        rej_desc.append("".join("r" if not a else "a" for a in acc.tolist()))
    keyparts.append(f"{var}/{rec.kind}/{','.join(rej_desc)}/{sum(len(b.foreign or []) for b in rec.blocks)}/{step.get('proposal')}")

    # ---- (1) the latent variable equals the sequential reference; other independent values untouched
    exp_val = world.reference_after(rec)
    if exp_val is None:
        violation(out, "harness", "no_change_or_decision_recorded", where)
        return
    now = world.read_indep()
    if not same(now[var], exp_val):
        sig = _classify(now[var], exp_val, rec)
        violation(out, "latent_value_after_step", sig, f"{where}: {describe_diff(now[var], exp_val)}")
    for nm in world.indep_names:
        if nm != var and not same(now[nm], rec.pre_indep[nm]):
            violation(out, "other_independent_untouched", f"other_variable_changed:{'ind' if rec.is_ind else 'pop'}", f"{where}: {nm} changed")
    # ---- (2) every cached cell equals a from-scratch evaluation at the reference values
    ref_indep = dict(rec.pre_indep)
    ref_indep[var] = exp_val
    ev = world.evaluator(ref_indep)
    bad = 0
    for nm in world.all_names:
        if nm in ref_indep:
            continue
        cell = state._values.get(nm)
        if cell is None:
            continue
        try:
            exp = ev.value(nm)
        except Unset:
            violation(out, "cache_after_step", "cached_but_unset", f"{where}: {nm}")
            continue
        except Exception:
            continue
        if not same(cell, exp):
            bad += 1
            if bad <= 2:
                violation(out, "cache_after_step", _classify_cell(cell, exp, rec, nm, world), f"{where}: cached {nm}: {describe_diff(cell, exp)}")
    # ---- (3) forced read of every variable (individual-level and aggregated)
    bad = 0
    for nm in world.all_names:
        try:
            exp = ev.value(nm)
        except Exception:
            continue
        try:
            got = state[nm]
        except Exception as e:
            violation(out, "read_after_step", f"read_raised:{type(e).__name__}", f"{where}: read {nm}: {e}")
            continue
        if not same(got, exp):
            bad += 1
            if bad <= 2:
                violation(out, "read_after_step", _classify_cell(got, exp, rec, nm, world), f"{where}: read {nm}: {describe_diff(got, exp)}")


def _has_nonfinite(t):
    t = t.value if hasattr(t, "weight") else t
    return bool((~torch.isfinite(t)).any()) if t.is_floating_point() else False


def _classify(got, exp, rec):
    kind = "ind" if rec.is_ind else "pop"
    if _has_nonfinite(got) and not _has_nonfinite(exp):
        return f"nonfinite_leak_into_latent:{kind}"
    return f"latent_differs_from_accept_reject_reference:{kind}"


def _classify_cell(got, exp, rec, nm, world):
    kind = "ind" if rec.is_ind else "pop"
    if _has_nonfinite(got) and not _has_nonfinite(exp):
        # where does the non-finite number come from?  evaluate the same cell at the *proposed* values
        src = "unknown_source"
        try:
            for b in rec.blocks:
                ind = dict(rec.pre_indep)
                ind[rec.var] = b.post_value
                if _has_nonfinite(world.evaluator(ind).value(nm)):
                    src = "proposed_value_of_cell_nonfinite"
        except Exception:
            src = "proposed_value_not_computable"
        return f"nonfinite_leak_in_rejected_part:{kind}:{src}"
    return f"derived_value_differs_from_scratch:{kind}"


def shrink(plan: dict):
    if plan.get("type") == "custom_graph":
        for key, vals in (("steps", [1, 2, 3, plan["steps"] // 2]), ("n", [3]), ("visits", [2]), ("read_between", [False])):
            for v_ in vals:
                if v_ != plan[key] and (not isinstance(v_, int) or isinstance(v_, bool) or 1 <= v_ < plan[key]):
                    p = dict(plan)
                    p[key] = v_
                    yield p
        return
    steps = plan["steps"]
    for cand in ddmin_list(steps):
        if cand:
            p = dict(plan)
            p["steps"] = cand
            yield p
    # simplify step attributes
    for i, s in enumerate(steps):
        if "mstep" in s:
            continue
        for key, simple in (("foreign", "none"), ("order", "identity"), ("t_inv", 1.0)):
            if s.get(key) != simple:
                p = copy.deepcopy(plan)
                p["steps"][i][key] = simple
                yield p
        if s.get("decision") not in ("natural",):
            p = copy.deepcopy(plan)
            p["steps"][i]["decision"] = "natural"
            yield p
        if s.get("proposal") != "ordinary":
            p = copy.deepcopy(plan)
            p["steps"][i]["proposal"] = "ordinary"
            yield p
    w = plan["world"]
    for key, simple in (("missing", 0.0), ("whole_ft", False), ("n", 5), ("max_visits", 2), ("sampler_pop", "Gibbs")):
        if w.get(key) != simple:
            p = copy.deepcopy(plan)
            p["world"][key] = simple
            yield p
