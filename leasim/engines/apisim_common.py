"""apisim helpers: hand-written models, request generators, deep snapshots."""
from __future__ import annotations

import contextlib
import io
import math
import warnings

import numpy as np
import pandas as pd
import torch

from ..core import workload
from ..core.rng import Stream
from ..ref import refmath as rm

FEATURE_NAME_POOLS = [
    ["Y0", "Y1", "Y2", "Y3"],
    ["mémoire", "attention ☂", "langage", "praxies"],
    ["1", "2", "3", "4"],
    ["feat a", "feat-b", "FEAT_C", "féat.d"],
    ["0.5", "1e3", "nan", "True"],
    [" memory", "praxis ", "  gait speed", "mood  "],      # blanks kept from a spreadsheet header: a name is its exact string
    [0, 1, 2, 3],                                            # integer column labels
]
INSTANCE_NAMES = [None, None, "my_model", "Logistic", "study-42 ☂", "model v2", "LINEAR"]


def quiet():
    es = contextlib.ExitStack()
    es.enter_context(warnings.catch_warnings())
    warnings.simplefilter("ignore")
    es.enter_context(contextlib.redirect_stdout(io.StringIO()))
    return es


def handwritten_settings(st: Stream, kind: str, nf: int, *, name=None, features=None, source_dimension=None) -> dict:
    """A model file 'written by hand': plausible parameter values from the stream, no fit involved."""
    info = workload.kind_info(kind)
    if info["uni"]:
        nf = 1
    fam = info["family"]
    feats = list(features) if features else [f"Y{j}" for j in range(nf)]
    ref = rm.info_for_kind(info)
    if info["sources"]:
        ns = source_dimension if source_dimension is not None else max(1, min(2, nf - 1))
        ns = max(1, min(ns, nf - 1))
    else:
        ns = 0
    r = lambda a, b, k=None: ([round(st.uniform(a, b), 4) for _ in range(k)] if k is not None else round(st.uniform(a, b), 4))  # noqa: E731
    params = {"tau_mean": [r(60, 80)], "tau_std": [r(2, 9)], "xi_std": [r(0.2, 0.9)]}
    if fam in ("logistic", "joint"):
        params["log_g_mean"] = r(-1.0, 2.5, nf)
        params["log_v0_mean"] = r(-4.5, -2.0, nf)
    elif fam == "linear":
        params["g_mean"] = r(0.1, 0.9, nf)
        params["log_v0_mean"] = r(-4.5, -2.0, nf)
    elif fam == "shared_speed_logistic":
        params["log_g_mean"] = [r(-0.5, 2.0)]
        params["xi_mean"] = [r(-3.5, -2.0)]
        params["deltas_mean"] = r(-1.0, 1.0, nf - 1)
    if ns:
        params["betas_mean"] = [[round(0.3 * st.normal(), 4) for _ in range(ns)] for _ in range(nf - 1)]
    if ref.obs == "gaussian-scalar":
        params["noise_std"] = r(0.02, 0.3)
    elif ref.obs == "gaussian-diagonal":
        params["noise_std"] = r(0.02, 0.3, nf)
    d = {"leaspy_version": "2.0.2", "name": name or fam, "features": feats, "dimension": nf, "source_dimension": ns,
         "obs_models": {"y": ref.obs}, "fit_metrics": None, "parameters": params}
    if fam == "joint":
        ne = info["nb_events"]
        params["n_log_nu_mean"] = r(-3.5, -1.5, ne)
        params["log_rho_mean"] = r(-0.3, 0.8, ne)
        if ns:
            params["zeta_mean"] = [[round(0.3 * st.normal(), 4) for _ in range(ne)] for _ in range(ns)]
        d["nb_events"] = ne
    return d


def load_from_settings(settings: dict):
    from leaspy.models import BaseModel

    with quiet():
        return BaseModel.load(copy_settings(settings))


def copy_settings(settings: dict) -> dict:
    import copy

    return copy.deepcopy(settings)


def pop_values_from_params(kind: str, params: dict) -> dict:
    """population values (float64) = prior modes under the given parameters."""
    v = {}
    for k, val in params.items():
        if k.endswith("_mean") and k[:-5] not in ("tau", "xi", "sources"):
            v[k[:-5]] = np.asarray(val, dtype=np.float64)
    if "noise_std" in params:
        v["noise_std"] = np.asarray(params["noise_std"], dtype=np.float64)
    return v


def ref_trajectory(kind: str, params: dict, ages, xi, tau, sources=None):
    """float64 closed-form trajectory for one individual: (n_ages, n_features)"""
    info = workload.kind_info(kind)
    ref = rm.info_for_kind(info)
    v = pop_values_from_params(kind, params)
    t = np.asarray(ages, dtype=np.float64).reshape(1, -1)
    xi = np.asarray(xi, dtype=np.float64).reshape(1, 1)
    tau = np.asarray(tau, dtype=np.float64).reshape(1, 1)
    src = np.asarray(sources, dtype=np.float64).reshape(1, -1) if (sources is not None and info["sources"]) else None
    return ref.trajectory(v, t, xi, tau, src)[0]


def individual_parameters(st: Stream, kind: str, params: dict, ids, ns: int):
    """IndividualParameters with plausible values; returns (ip_object, dict id -> {xi, tau, sources})."""
    from leaspy.io.outputs import IndividualParameters

    ip = IndividualParameters()
    vals = {}
    tau_m = float(np.asarray(params["tau_mean"]).reshape(-1)[0])
    for pid in ids:
        d = {"xi": round(0.5 * st.normal(), 4), "tau": round(tau_m + 5 * st.normal(), 3)}
        if ns:
            d["sources"] = [round(st.normal(), 4) for _ in range(ns)]
        vals[pid] = d
        ip.add_individual_parameters(pid, dict(d))
    return ip, vals


def snapshot_model(model) -> dict:
    """Deep snapshot of what C13 says must stay untouched."""
    s = model.state
    snap = {"values": {}, "tracked": set(s.tracked_variables), "auto_fork": s.auto_fork_type}
    for nm in s.dag.variables:
        v = s._values.get(nm)
        snap["values"][nm] = clone_value(v)
    snap["has_fork"] = s._last_fork is not None
    return snap


def clone_value(v):
    if v is None:
        return None
    if hasattr(v, "weight") and hasattr(v, "value"):
        from leaspy.utils.weighted_tensor import WeightedTensor

        return WeightedTensor(v.value.clone(), None if v.weight is None else v.weight.clone())
    if isinstance(v, torch.Tensor):
        return v.clone()
    return v
