"""C10 — re-centring is a pure gauge change; space shifts are orthogonal to progression (fitsim monitor)."""
from __future__ import annotations

import copy
import hashlib

import numpy as np
import torch

from ..core import workload
from ..core.driver import EventLog, new_outcome, tdigest, violation
from ..core.rng import SimRng
from ..ref import refmath as rm
from . import fitsim

PROPERTY = "C10"
TIERS = {
    "quick": {"runs": 1200, "budget_s": 110, "chunk": 4},
    "thorough": {"runs": 12000, "budget_s": 900, "chunk": 8},
}
REQUIRED_PROBES = {
    "quick": ["probe.recentring_checked", "probe.orthogonality_checked", "probe.recentring_nonzero_shift"],
    "thorough": ["probe.recentring_checked", "probe.orthogonality_checked", "probe.recentring_nonzero_shift", "probe.joint_event_likelihood_checked",
                 "probe.orthogonality_after_tail_proposal", "probe.kind.linear", "probe.kind.logistic", "probe.kind.joint", "probe.kind.shared_speed_logistic", "probe.extreme_population_values"],
}
DESCRIBE = {
    "rule": "one case = one whole real fit (2-30 iterations) of a model kind with the re-centring step (logistic, linear, joint; with / without sources) or with a mixing "
            "matrix (shared-speed too), with served draws, forced-accept phases and 5-sigma population proposals; around every _center_xi_realizations: trajectories, "
            "attachments (and event attachments) before/after, zero mean; after every population step and M-step: rows of mixing_matrix and every space shift have zero "
            "inner product with the progression direction in the model's metric (direction and metric re-derived in float64 from the population values); "
            "distinct = configuration digest; non-trivial = at least one re-centring with a non-zero mean shift was checked",
    "distinct_measure": "digest of (model kind, cohort shape, n_iter, sampler, decisions, proposal faults)",
    "real": ["RiemanianManifoldModel / JointModel._center_xi_realizations", "utils.linalg.compute_orthonormal_basis, mixing_matrix / space_shifts definitions", "TensorMcmcSaemAlgorithm run loop, samplers, State"],
    "stub": ["randn / rand / shuffle served", "clock virtual", "stdout captured"],
    "assumptions": ["gauge invariance within rtol 3e-4 / atol 5e-5*max(1,|x|) (float32: exp(xi - m) * exp(log_v0 + m) is not bit-identical)", "orthogonality relative to the norms <= 1e-4 (float32; 2.6e-5 was observed on the unchanged tree after a 5-sigma proposal)",
                    "mixture model excluded (quick)"],
}
KINDS = ["logistic_scalar", "logistic_diag", "logistic_diag_nosrc", "logistic_uni", "logistic_binary", "linear_diag", "linear_scalar", "linear_uni",
         "joint_uni", "joint_multi", "joint_nosrc", "joint_ev2", "shared_speed", "mixture"]


def make_plan(seed: int, tier: str) -> dict:
    rng = SimRng(seed)
    st = rng.stream("plan")
    if st.bernoulli(0.3):
        # "for any population values": jumps of O(1..8) on log-positions / log-velocities / shifts / mixing coefficients
        # (one coordinate at a time) assigned to the real model state; orthogonality of the derived mixing matrix checked after each
        from . import stepsim

        wcfg = stepsim.gen_world_cfg(rng.stream("world"), kinds=["logistic_scalar", "logistic_diag", "linear_diag", "joint_multi", "shared_speed", "logistic_binary"])
        wcfg["sampler_pop"] = st.choice(["Gibbs", "Gibbs", "FastGibbs"])
        wcfg["nf"] = st.choice([3, 4])
        steps = [{"sel": st.randint(0, 7), "prefer": st.weighted([("position", 6), ("velocity", 3), ("any", 2)]), "ind": False, "t_inv": 1.0, "proposal": "huge",
                  "huge_scale": st.choice([200.0, 600.0, 1500.0]), "decision": "accept", "foreign": "none", "order": "seeded"} for _ in range(st.randint(4, 12))]
        return {"seed": seed, "tier": tier, "engine": "fitsim_c10", "type": "population_values", "world": wcfg, "steps": steps}
    cfg = fitsim.gen_fit_cfg(rng.stream("world"), kinds=KINDS, max_iter=10 if tier == "quick" else 30)
    pf = {}
    for k in range(1, cfg["n_iter"] + 1):
        if st.bernoulli(0.3):
            pf[str(k)] = "tail"
            cfg["decisions"][str(k)] = "accept_all"
    cfg["proposal_faults"] = pf
    return {"seed": seed, "tier": tier, "engine": "fitsim_c10", "world": cfg}


EPS32 = float(np.finfo(np.float32).eps)


def wv(t):
    return t.weighted_value if hasattr(t, "weight") else t


class C10Monitor(fitsim.Monitor):
    def __init__(self, out, cfg):
        self.out = out
        self.cfg = cfg
        self.C = out["counters"]
        self.info = workload.kind_info(cfg["kind"])
        self.before = None
        self.ref = rm.info_for_kind(self.info)

    # ---------------------------------------------------------------- gauge
    def _snap(self, w):
        s = w.state
        d = {"model": wv(s["model"]).clone(), "nll_attach_ind": wv(s["nll_attach_ind"]).clone(), "xi": s["xi"].clone()}
        if self.info["event"]:
            d["nll_attach_event_ind"] = wv(s["nll_attach_event_ind"]).clone()
        # conditioning of the curve's argument: the invariant product v0 * exp(xi) (t - tau) is rounded in float32, so the model may move
        # by ~ eps32 * |metric * v0 * rt| * max slope (extreme states after tail proposals / random initial parameters)
        try:
            rt = wv(s["rt"]).double().abs()
            v0 = s["v0"].double().abs()
            arg = (rt.unsqueeze(-1) if rt.ndim == 2 else rt) * v0
            if "metric" in s.dag and self.info["family"] != "linear":
                arg = arg * s["metric"].double().abs() * 0.25
            d["model_cond"] = float(arg[torch.isfinite(arg)].max()) if torch.isfinite(arg).any() else 0.0
        except Exception:
            d["model_cond"] = 0.0
        # sensitivity of one individual's attachment to a change of the model value: Bernoulli |d(-log p)/d logit| <= 1 per entry
        # (the 0.25 slope above does not apply), Gaussian |residual| / sigma^2 per entry
        try:
            y = s["y"]
            n_entries = float(y.weight.reshape(y.weight.shape[0], -1).sum(dim=1).max())
            if "noise_std" in s.dag:
                sig2 = (s["noise_std"].double() ** 2).min().clamp(min=1e-12)
                resid = ((y.value - wv(s["model"])).double().abs() * (y.weight > 0)).max()
                d["attach_sens"] = float(n_entries * resid / sig2)
            else:
                d["attach_sens"] = float(4.0 * n_entries)
        except Exception:
            d["attach_sens"] = 0.0
        return d

    def before_center(self, w, k):
        self.before = self._snap(w)

    def after_center(self, w, k):
        out, C = self.out, self.C
        b, a = self.before, self._snap(w)
        where = f"k={k} kind={self.cfg['kind']}"
        C["probe.recentring_checked"] += 1
        shift = float(b["xi"].mean())
        if abs(shift) > 1e-4:
            C["probe.recentring_nonzero_shift"] += 1
        for key in ("model", "nll_attach_ind", "nll_attach_event_ind"):
            if key not in b:
                continue
            if key == "nll_attach_event_ind":
                C["probe.joint_event_likelihood_checked"] += 1
            x, y = b[key].double(), a[key].double()
            fin = torch.isfinite(x) & torch.isfinite(y)
            scale = float(x[fin].abs().max()) if fin.any() else 1.0
            extra = 16 * EPS32 * max(b.get("model_cond", 0.0), a.get("model_cond", 0.0)) if key in ("model", "nll_attach_ind") else 0.0
            if key == "nll_attach_ind":
                extra = extra * max(b.get("attach_sens", 0.0), a.get("attach_sens", 0.0))
            if extra > 5e-5:
                C["probe.gauge_tolerance_widened_by_conditioning"] += 1
            if x.shape != y.shape or not torch.allclose(x[fin], y[fin], rtol=3e-4, atol=5e-5 * max(1.0, scale) + extra) or not torch.equal(torch.isfinite(x), torch.isfinite(y)):
                d = float((x[fin] - y[fin]).abs().max()) if fin.any() else float("nan")
                violation(out, "gauge_invariance", f"{key}_changed_by_recentring:{self.info['family']}", f"{where}: max |delta| = {d:.3g} (mean xi removed = {shift:.4g})")
        m = float(a["xi"].mean())
        if abs(m) > 1e-6 * max(1.0, float(a["xi"].abs().max())) + 1e-7:
            violation(out, "zero_mean", f"xi_mean_not_zero_after_recentring:{self.info['family']}", f"{where}: mean(xi) = {m!r}")

    # ---------------------------------------------------------------- orthogonality
    def _ortho(self, w, k, when):
        if not self.info["sources"]:
            return
        out, C = self.out, self.C
        s = w.state
        pop = {nm: rm.f64(s[nm]) for nm in w.pop_names()}
        try:
            geo = self.ref.geometry(pop)
        except Exception:
            return
        direction = geo["direction"]
        G = geo["g_metric"]
        gd = G * direction
        mm = rm.f64(s["mixing_matrix"])          # (n_sources, dim)
        ss = rm.f64(s["space_shifts"])           # (n, dim)
        C["probe.orthogonality_checked"] += 1
        fam = self.info["family"]
        C[f"probe.kind.{fam}"] += 1
        if self.cfg.get("proposal_faults", {}).get(str(k)):
            C["probe.orthogonality_after_tail_proposal"] += 1
        for name, rows in (("mixing_matrix", mm), ("space_shifts", ss)):
            inner = rows @ gd
            norms = np.linalg.norm(rows, axis=1) * np.linalg.norm(gd) + 1e-30
            rel = np.abs(inner) / norms
            big = np.linalg.norm(rows, axis=1) > 1e-12
            if np.any(rel[big] > 1e-4):
                # is it orthogonal in the Euclidean sense instead (missing metric)?
                rel_e = np.abs(rows @ direction) / (np.linalg.norm(rows, axis=1) * np.linalg.norm(direction) + 1e-30)
                cls = "euclidean_instead_of_metric" if np.all(rel_e[big] < 1e-4) else "not_orthogonal"
                violation(out, "orthogonality", f"{name}:{cls}:{fam}:{when}", f"k={k} {when}: max relative inner product {float(rel[big].max()):.3g}")
                return

    def after_sample(self, w, k, var):
        if var in ("xi", "tau", "sources"):
            return
        self._ortho(w, k, "after_population_step")

    def after_mstep(self, w, k):
        self._ortho(w, k, "after_mstep")


def run_population_values(plan, out, log):
    import warnings

    from . import stepsim

    C = out["counters"]
    cfg = plan["world"]
    info = workload.kind_info(cfg["kind"])
    ref = rm.info_for_kind(info)
    try:
        world = stepsim.StepWorld(cfg, log, C)
    except Exception as e:
        out["discarded"] = f"setup:{type(e).__name__}"
        return
    extreme = 0
    with warnings.catch_warnings():
        warnings.simplefilter("ignore")
        for si, step in enumerate(plan["steps"]):
            pref = {"position": ["log_g", "g", "deltas"], "velocity": ["log_v0"], "any": world.pop_names}[step.get("prefer", "any")]
            pool = [nm for nm in world.pop_names if nm in pref] or world.pop_names
            var = pool[step["sel"] % len(pool)]
            s = world.state
            # a jump of O(1..8) on one coordinate, assigned through the public state API (a proposal that bad would never be
            # accepted by the sampler: its acceptance ratio underflows to 0, so acceptance cannot be forced through the uniform)
            from ..core.rng import Stream

            jst = Stream(cfg["gseed"], "jump", si)
            cur = s[var]
            flat = cur.clone().reshape(-1)
            j = jst.randint(0, flat.numel() - 1)
            flat[j] = flat[j] + float(jst.choice([-1, 1, 1]) * jst.uniform(1.0, 8.0)) * (0.3 if var == "betas" else 1.0)
            try:
                s[var] = flat.reshape(cur.shape)
                C["fault.population_jump"] += 1
            except Exception as e:
                C["abort.assignment:" + type(e).__name__] += 1
                break
            pop = {nm: rm.f64(s[nm]) for nm in world.pop_names}
            # beyond |log-position| ~ 6.5 the float32 metric itself (1 - gamma with gamma = 1 - 3e-5 ...) keeps 2-3 digits: not comparable
            lp = [np.abs(v).max() for k_, v in pop.items() if k_ in ("log_g", "deltas")]
            if "log_g" in pop and "deltas" in pop:
                lp.append(np.abs(pop["log_g"].reshape(-1)[0] - np.concatenate([[0.0], pop["deltas"]])).max())
            if not all(np.isfinite(v).all() for v in pop.values()) or any(x > 6.5 for x in lp) or any(np.abs(v).max() > 12 for k_, v in pop.items() if k_ == "log_v0"):
                C["skip.population_values_beyond_float32_conditioning"] += 1
                log.add("jump-skipped", si, var, j, tdigest(s[var]))
                break
            try:
                geo = ref.geometry(pop)
                mm = rm.f64(s["mixing_matrix"])
                ss = rm.f64(s["space_shifts"])
            except Exception as e:
                C["abort.geometry:" + type(e).__name__] += 1
                break
            gd = geo["g_metric"] * geo["direction"]
            log.add("jump", si, var, j, tdigest(s[var]), tdigest(s["mixing_matrix"]), tdigest(s["space_shifts"]))
            C["probe.orthogonality_checked"] += 1
            C["probe.orthogonality_after_tail_proposal"] += 1
            C[f"probe.kind.{info['family']}"] += 1
            ratio = np.abs(gd[0]) / (np.linalg.norm(gd) + 1e-300)
            if ratio < 1e-3 or ratio > 0.999:
                extreme += 1
                C["probe.extreme_population_values"] += 1
            for name, rows in (("mixing_matrix", mm), ("space_shifts", ss)):
                nr = np.linalg.norm(rows, axis=1)
                rel = np.abs(rows @ gd) / (nr * np.linalg.norm(gd) + 1e-300)
                big = nr > 1e-12
                if not np.isfinite(rows).all():
                    C["skip.nonfinite_mixing"] += 1
                    continue
                if np.any(rel[big] > 1e-3):
                    violation(out, "orthogonality", f"{name}:not_orthogonal:{info['family']}:after_forced_population_jump",
                              f"step{si} {var}: max relative inner product {float(rel[big].max()):.3g}; first component of G.v0 / norm = {ratio:.2e}; "
                              f"population values { {k_: np.round(v, 2).tolist() for k_, v in pop.items() if k_ != 'betas'} }")
                    return
    out["nontrivial"] = C["probe.orthogonality_checked"] > 0
    key = ("popvals", cfg["kind"], cfg["nf"], cfg["sampler_pop"], tuple((s_["sel"], s_["huge_scale"]) for s_ in plan["steps"]))
    out["keys"].add("run:" + hashlib.sha1(repr(key).encode()).hexdigest()[:16])
    out["sample"] = {"type": "population_values", "world": {k_: v for k_, v in cfg.items() if k_ != "gseed"}, "steps": plan["steps"][:4]}


def run_plan(plan: dict) -> dict:
    from leaspy.exceptions import LeaspyConvergenceError

    out = new_outcome(plan)
    log = EventLog()
    torch.set_num_threads(1)
    if plan.get("type") == "population_values":
        run_population_values(plan, out, log)
        out["counters"]["type.population_values"] += 1
        out["digest"] = log.digest()
        return out
    cfg = plan["world"]
    mon = C10Monitor(out, cfg)
    try:
        world = fitsim.FitWorld(cfg, log, out["counters"], [mon])
    except Exception as e:
        out["discarded"] = f"setup:{type(e).__name__}"
        out["digest"] = "setup-failed"
        return out
    C = out["counters"]
    exc = world.run()
    if isinstance(exc, LeaspyConvergenceError):
        C["abort.convergence_error"] += 1
    elif exc is not None:
        out["discarded"] = f"fit_raised:{type(exc).__name__}"
    C[f"model.{cfg['kind']}"] += 1
    key = (cfg["kind"], cfg["n"], cfg["max_visits"], cfg["missing"], cfg["n_iter"], cfg["sampler_pop"], sorted(cfg["decisions"].items()), sorted(cfg["proposal_faults"].items()))
    out["keys"].add("run:" + hashlib.sha1(repr(key).encode()).hexdigest()[:16])
    out["nontrivial"] = C["probe.recentring_nonzero_shift"] > 0
    out["digest"] = log.digest()
    out["sample"] = {k: v for k, v in cfg.items() if k != "gseed"}
    out["virtual_s"] = world.clock.now - 1_700_000_000.0
    return out


def shrink(plan: dict):
    if plan.get("type") == "population_values":
        from ..core.driver import ddmin_list

        for cand in ddmin_list(plan["steps"]):
            if cand:
                p = dict(plan)
                p["steps"] = cand
                yield p
        return
    w = plan["world"]
    for n in sorted({1, 2, 3, w["n_iter"] // 2, w["n_iter"] - 1}):
        if 1 <= n < w["n_iter"]:
            p = copy.deepcopy(plan)
            p["world"]["n_iter"] = n
            p["world"]["decisions"] = {k: v for k, v in w["decisions"].items() if int(k) <= n}
            p["world"]["proposal_faults"] = {k: v for k, v in w["proposal_faults"].items() if int(k) <= n}
            yield p
    if w["decisions"] or w["proposal_faults"]:
        p = copy.deepcopy(plan)
        p["world"]["decisions"] = {}
        p["world"]["proposal_faults"] = {}
        yield p
    for key, simple in (("whole_ft", False), ("n", 3), ("max_visits", 2), ("sampler_pop", "Gibbs"), ("missing", 0.0)):
        if w.get(key) != simple:
            p = copy.deepcopy(plan)
            p["world"][key] = simple
            yield p
