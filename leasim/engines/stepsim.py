"""stepsim — real samplers on real model states, stepped one `sample()` at a time.

The simulator owns every `randn` / `rand` / `shuffle`; it computes the acceptance ratio from
scratch (RefEval) *inside* the `rand` seam, i.e. between proposal and decision, which is also the
pre-emption point where foreign reads are injected.

Shared by C02 (rejected proposals leave no trace), C03 (every step is an MH transition) and
C19 (proposal-scale envelope).
"""
from __future__ import annotations

import contextlib
import io
import math
import warnings

import numpy as np
import torch

from ..core import workload
from ..core.driver import tdigest
from ..core.rng import Stream
from ..core.seams import defining_class, observe, rng_seams
from ..ref.refeval import RefEval, descendants, same

F32_ONE_MINUS = float(np.nextafter(np.float32(1.0), np.float32(0.0)))


def tval(v):
    """tensor value the samplers see (`state.get_tensor_value`)."""
    return v.weighted_value if hasattr(v, "weight") else v


class Block:
    __slots__ = ("idx", "z", "z_style", "change", "pre_value", "post_value", "alpha_arg", "alpha_t", "alpha64", "terms",
                 "u", "u_style", "accepted", "foreign", "realised", "shape_randn", "shape_rand", "nonfinite_eval")

    def __init__(self):
        for s in self.__slots__:
            setattr(self, s, None)


class StepRecord:
    def __init__(self, var, sampler, t_inv):
        self.var = var
        self.sampler = sampler
        self.kind = type(sampler).__name__
        self.is_ind = hasattr(sampler, "n_patients")
        self.t_inv = t_inv
        self.blocks = []
        self.calls = []          # seam calls in order: ("shuffle", n) / ("randn", shape) / ("rand", shape)
        self.pre_indep = None    # independent values at entry
        self.std_before = None
        self.std_after = None
        self.counter_before = None
        self.hist_before = None
        self.hist_after = None
        self.error = None


class StepWorld:
    """Real model + dataset + MCMC-SAEM algorithm object, initialised through the real `_initialize_algo`."""

    def __init__(self, cfg: dict, log, counters):
        self.cfg = cfg
        self.log = log
        self.counters = counters
        self.rec = None          # StepRecord being filled
        self.cur = None          # Block being filled
        self.pending_alpha = None
        self.step_no = 0
        self.call_no = 0
        self.spec = None         # spec of the current step
        self.in_sample = False
        self._build()

    # ------------------------------------------------------------------ construction
    def _build(self):
        from leaspy.algo import AlgorithmSettings, algorithm_factory
        from leaspy.io.data import Dataset
        from leaspy.variables.specs import (
            DataVariable, Hyperparameter, IndepVariable, IndividualLatentVariable, ModelParameter, PopulationLatentVariable,
        )

        cfg = self.cfg
        st = Stream(cfg["gseed"], "cohort")
        with warnings.catch_warnings(), contextlib.redirect_stdout(io.StringIO()):
            warnings.simplefilter("ignore")
            df = workload.make_cohort(st, kind=cfg["kind"], n=cfg["n"], n_features=cfg["nf"], max_visits=cfg["max_visits"],
                                      missing_rate=cfg["missing"], whole_feature_missing=cfg.get("whole_ft", False), baseline_axis=bool(cfg.get("baseline_axis")))
            self.df = df
            data = workload.to_data(df, cfg["kind"])
            self.dataset = Dataset(data)
            mk = {}
            if cfg.get("init_random") and workload.kind_info(cfg["kind"])["family"] != "linear":
                mk["initialization_method"] = "random"   # (drawn from torch's generator, seeded from the plan just below / by the fit)
            self.model = workload.make_model(cfg["kind"], cfg["nf"], source_dimension=cfg.get("sd"), **mk)
            torch.manual_seed(cfg["gseed"] & 0x7FFFFFFF)
            self.model.initialize(self.dataset)
            algo_kw = dict(n_iter=cfg.get("n_iter", 50), progress_bar=False, seed=None)
            algo_kw["sampler_pop"] = cfg.get("sampler_pop", "Gibbs")
            spp = dict(acceptation_history_length=cfg.get("ahl", 25))
            if "bounds" in cfg:
                spp["mean_acceptation_rate_target_bounds"] = list(cfg["bounds"])
            if "factor" in cfg:
                spp["adaptive_std_factor"] = cfg["factor"]
            algo_kw["sampler_pop_params"] = dict(spp, random_order_dimension=cfg.get("random_order_dimension", True))
            algo_kw["sampler_ind_params"] = dict(spp)
            for k in ("n_burn_in_iter", "n_burn_in_iter_frac", "burn_in_step_power", "annealing", "random_order_variables"):
                if k in cfg:
                    algo_kw[k] = cfg[k]
            settings = AlgorithmSettings("mcmc_saem", **algo_kw)
            self.algo = algorithm_factory(settings)
            if cfg.get("zero_start_component"):
                # degenerate but legal start: one component of a vector-valued population parameter is exactly 0 (a feature whose
                # mean is 0.5 gives log g = 0); the default proposal scale of a population variable is |value|
                for nm in ("log_g_mean", "g_mean", "deltas_mean", "log_v0_mean"):
                    if nm in self.model.parameters and self.model.parameters[nm].numel() > 1:
                        p = self.model.state[nm].clone()
                        p.reshape(-1)[int(cfg["zero_start_component"]) % p.numel()] = 0.0
                        self.model.state[nm] = p
                        self.model.state[nm[: -len("_mean")]] = p.clone()   # (the population variable sits at its prior mode)
                        self.counters["fault.zero_component_in_start_value"] += 1
                        break
            if cfg.get("unit_scale_param"):
                # a scale parameter that is exactly 1.0 (hand-edited / rounded model files): legal, and a classic shortcut trap
                nm = cfg["unit_scale_param"]
                if nm in self.model.parameters:
                    self.model.state[nm] = torch.ones_like(self.model.state[nm])
                    self.counters["fault.scale_parameter_exactly_one"] += 1
            torch.manual_seed(cfg["gseed"] & 0x7FFFFFFF)
            self.state = self.algo._initialize_algo(self.model, self.dataset)
        dag = self.state.dag
        self.variables = dag.variables
        self.all_names = sorted(self.variables)
        self.n = self.dataset.n_individuals
        self.pop_names = sorted(dag.sorted_variables_by_type.get(PopulationLatentVariable, {}))
        self.ind_names = sorted(dag.sorted_variables_by_type.get(IndividualLatentVariable, {}))
        self.param_names = sorted(dag.sorted_variables_by_type.get(ModelParameter, {}))
        self.data_names = sorted(dag.sorted_variables_by_type.get(DataVariable, {}))
        self.indep_names = sorted(nm for nm, v in self.variables.items() if isinstance(v, IndepVariable) and not isinstance(v, Hyperparameter))
        self.is_mixture = self.cfg["kind"] == "mixture"
        self.ind_tags = self._rowwise_tags()

    def _rowwise_tags(self):
        from .statesim import _probe_rowwise

        base = self.read_indep()
        return _probe_rowwise(self.state.dag, base, self.ind_names, self.n)

    # ------------------------------------------------------------------ helpers
    def read_indep(self) -> dict:
        s = self.state
        return {nm: (s[nm] if s.is_variable_set(nm) else None) for nm in self.indep_names}

    def evaluator(self, indep=None) -> RefEval:
        return RefEval(self.variables, indep if indep is not None else self.read_indep())

    def terms(self, ev: RefEval, var: str, is_ind: bool):
        """(attachment, regularity) the sampler must be looking at, evaluated from scratch."""
        if is_ind:
            att = tval(ev.value("nll_attach_ind"))
            reg = tval(ev.value(f"nll_regul_{var}_ind"))
            if self.is_mixture:
                s = ev.value("nll_regul_ind_sum_ind")
                if tval(s).ndim > 1:
                    probs = torch.nn.Softmax(dim=1)(torch.clamp(-s.value, -100.0))
                    if reg.ndim == 2:
                        reg = (probs * reg).sum(dim=1)
            return att, reg
        return tval(ev.value("nll_attach")), tval(ev.value(f"nll_regul_{var}"))

    # ------------------------------------------------------------------ seams (controller interface)
    def on_shuffle(self, lst, where):
        style = (self.spec or {}).get("order", "seeded")
        st = Stream(self.cfg["gseed"], "shuffle", self.step_no, where)
        if style == "identity":
            perm = list(lst)
        elif style == "reversed":
            perm = list(lst)[::-1]
        else:
            perm = st.shuffle(lst)
        lst[:] = perm
        if self.rec is not None:
            self.rec.calls.append(("shuffle", len(lst)))
        self.log.add("shuffle", where, perm if len(perm) < 12 else len(perm))

    def on_randn(self, shape, kw):
        numel = int(np.prod(shape)) if len(shape) else 1
        rec = self.rec
        spec = self.spec or {}
        if rec is None:
            # outside a sample() call (e.g. initialisation): plain seeded normals
            st = Stream(self.cfg["gseed"], "randn-out", self.call_no)
            self.call_no += 1
            return torch.tensor(st.normals(numel), dtype=torch.float32).reshape(shape)
        b = Block()
        rec.blocks.append(b)
        self.cur = b
        bi = len(rec.blocks) - 1
        st = Stream(self.cfg["gseed"], "z", self.step_no, bi)
        z = torch.tensor(st.normals(numel), dtype=torch.float32).reshape(shape)
        style = spec.get("proposal", "ordinary")
        if isinstance(style, list):
            style = style[bi % len(style)]
        if style == "tail":
            z = z * spec.get("tail_scale", 6.0)
            self.counters["fault.tail_proposal"] += 1
        elif style == "huge":
            z = z * spec.get("huge_scale", 1e4)
            self.counters["fault.huge_proposal"] += 1
        elif style == "huge_one":  # one individual / coordinate only
            zz = z.reshape(-1).clone()
            j = st.randint(0, numel - 1)
            zz[j] = zz[j] * spec.get("huge_scale", 1e4) + math.copysign(spec.get("huge_scale", 1e4), float(zz[j]) or 1.0)
            z = zz.reshape(shape)
            self.counters["fault.huge_proposal"] += 1
        elif style == "zero":
            z = torch.zeros(shape)
        b.z = z
        b.z_style = style
        b.shape_randn = tuple(shape)
        b.pre_value = self.state[rec.var]
        rec.calls.append(("randn", tuple(shape)))
        self.log.add("randn", rec.var, bi, tuple(shape), style)
        return z

    def on_rand(self, shape, kw):
        rec = self.rec
        spec = self.spec or {}
        if rec is None or self.cur is None:
            st = Stream(self.cfg["gseed"], "rand-out", self.call_no)
            self.call_no += 1
            return torch.tensor([st.random() for _ in range(int(np.prod(shape)) if len(shape) else 1)], dtype=torch.float32).reshape(shape)
        b = self.cur
        bi = len(rec.blocks) - 1
        b.shape_rand = tuple(shape)
        rec.calls.append(("rand", tuple(shape)))
        var = rec.var
        # ---- acceptance ratio from scratch (we are between proposal and decision)
        b.post_value = self.state[var]
        pre_indep = dict(self.block_indep)
        pre_indep[var] = b.pre_value
        post_indep = dict(self.block_indep)
        post_indep[var] = b.post_value
        ev0, ev1 = self.evaluator(pre_indep), self.evaluator(post_indep)
        try:
            a0, r0 = self.terms(ev0, var, rec.is_ind)
            a1, r1 = self.terms(ev1, var, rec.is_ind)
            b.terms = (a0, r0, a1, r1)
            alpha_t = torch.exp(-1 * ((r1 - r0) * rec.t_inv + (a1 - a0)))
            d64 = (r1.double() - r0.double()) * float(rec.t_inv) + (a1.double() - a0.double())
            alpha64 = torch.exp(-d64)
            b.nonfinite_eval = bool((~torch.isfinite(a1)).any() or (~torch.isfinite(r1)).any())
        except Exception as e:  # the evaluation of the proposal itself raises
            alpha_t = alpha64 = None
            b.terms = None
            rec.error = f"terms: {type(e).__name__}: {e}"
        b.alpha_t, b.alpha64 = alpha_t, alpha64
        b.alpha_arg = self.pending_alpha
        self.pending_alpha = None
        alpha_ref = b.alpha_arg if b.alpha_arg is not None else alpha_t
        # ---- foreign reads (allowed by the documented contract)
        fr = spec.get("foreign", "none")
        names = []
        if fr != "none":
            st = Stream(self.cfg["gseed"], "foreign", self.step_no, bi)
            if rec.is_ind:
                pool = [nm for nm in self.all_names if self.ind_tags.get(nm) == "ind"]
            else:
                pool = self.all_names
            k = len(pool) if fr == "all" else min(len(pool), st.randint(1, 4))
            names = pool if fr == "all" else st.sample(pool, k)
            for nm in names:
                try:
                    self.state[nm]
                except Exception:
                    pass
            self.counters["fault.foreign_read"] += len(names)
        b.foreign = names
        # ---- the uniform(s)
        numel = int(np.prod(shape)) if len(shape) else 1
        st = Stream(self.cfg["gseed"], "u", self.step_no, bi)
        style = spec.get("decision", "natural")
        if isinstance(style, list):
            style = style[bi % len(style)]
        b.u_style = style
        u = torch.tensor([st.random() for _ in range(numel)], dtype=torch.float32).reshape(shape).clamp(max=F32_ONE_MINUS)
        realised = True
        if alpha_ref is not None and style != "natural":
            a = torch.as_tensor(alpha_ref).detach().float().reshape(shape) if numel > 1 or len(shape) else torch.as_tensor(alpha_ref).detach().float().reshape(())
            if rec.is_ind:
                mask = self._target_mask(style, spec, numel, st)  # True = reject wanted
            else:
                mask = torch.tensor(style in ("reject", "tie", "just_above")).reshape(shape)
            u_new = u.clone()
            if style in ("tie",):
                u_new = torch.where(a < 1, a, u)  # u == alpha exactly: strict '<' must reject
                realised = bool((a < 1).all() if numel > 1 else a < 1)
            elif style == "zero":
                u_new = torch.zeros(shape)
            elif style == "one_minus":
                u_new = torch.full(shape, F32_ONE_MINUS)
            elif style == "just_below":
                u_new = (a * (1 - 1e-4)).clamp(min=0, max=F32_ONE_MINUS)
            elif style == "just_above":
                u_new = torch.where(a * (1 + 1e-4) < 1, a * (1 + 1e-4), u)
            else:
                # per-entry accept / reject targets, kept outside the near-tie band
                acc_u = (a * 0.5).clamp(min=0, max=F32_ONE_MINUS)           # accept when alpha > 0
                rej_u = ((a * (1 + 1e-3)) + 1e-30).clamp(max=F32_ONE_MINUS)  # reject when alpha < 1
                can_rej = (a * (1 + 1e-3) + 1e-30) < 1
                a_nan = torch.isnan(a)
                u_new = torch.where(mask, torch.where(can_rej | a_nan, rej_u.nan_to_num(0.5), u * 0 + 0.5), acc_u.nan_to_num(0.5))
                realised = bool((~mask | can_rej | a_nan).all())
            u = u_new.float()
            self.counters["fault.forced_decision"] += 1
        b.u = u
        b.realised = realised
        self.log.add("rand", var, bi, tuple(shape), style, tdigest(u), len(names))
        return u

    def _target_mask(self, style, spec, numel, st):
        if style in ("reject", "reject_all"):
            return torch.ones(numel, dtype=torch.bool)
        if style in ("accept", "accept_all"):
            return torch.zeros(numel, dtype=torch.bool)
        if style == "reject_one":
            m = torch.zeros(numel, dtype=torch.bool)
            m[st.randint(0, numel - 1)] = True
            return m
        if style == "accept_one":
            m = torch.ones(numel, dtype=torch.bool)
            m[st.randint(0, numel - 1)] = False
            return m
        if style == "alternate":
            return torch.tensor([(i + self.step_no) % 2 == 0 for i in range(numel)])
        if style == "reject_nonfinite":  # natural for finite rows
            return torch.zeros(numel, dtype=torch.bool)
        return torch.tensor([st.bernoulli(0.5) for _ in range(numel)])

    # ------------------------------------------------------------------ observers
    @contextlib.contextmanager
    def installed(self):
        import leaspy.samplers.base as sbase
        import leaspy.samplers.gibbs as sgibbs

        world = self

        def before_ms(smp, args, kwargs):
            world.pending_alpha = args[0] if args else kwargs.get("alpha")

        def after_ms(smp, token, res, exc):
            if world.cur is not None and exc is None:
                if isinstance(res, (tuple, list)) and res:
                    # a refactored helper may return more than the acceptance mask: the first element is the reported decision
                    world.counters["note.metropolis_step_returns_tuple"] += 1
                    res = res[0]
                world.cur.accepted = res

        def after_change(smp, token, res, exc):
            if world.cur is not None and exc is None:
                world.cur.change = res

        def before_idx(smp, args, kwargs):
            world._pending_idx = args[0] if args else kwargs.get("idx")

        def after_idx(smp, token, res, exc):
            if world.cur is not None and exc is None:
                world.cur.change = res
                world.cur.idx = tuple(world._pending_idx)

        with contextlib.ExitStack() as es:
            es.enter_context(rng_seams(self))
            es.enter_context(observe(sbase.AbstractSampler, "_metropolis_step", before_ms, after_ms))
            es.enter_context(observe(sbase.AbstractSampler, "_group_metropolis_step", before_ms, after_ms))
            es.enter_context(observe(sgibbs.AbstractPopulationGibbsSampler, "_proposed_change_idx", before_idx, after_idx))
            es.enter_context(observe(sgibbs.IndividualGibbsSampler, "_proposed_change", None, after_change))
            yield self

    # ------------------------------------------------------------------ one step
    def sample(self, var: str, t_inv: float, spec: dict) -> StepRecord:
        smp = self.algo.samplers[var]
        rec = StepRecord(var, smp, t_inv)
        rec.pre_indep = self.read_indep()
        self.block_indep = rec.pre_indep
        rec.std_before = smp.std.clone()
        rec.counter_before = smp._counter
        rec.hist_before = smp.acceptation_history.clone()
        self.rec, self.cur, self.spec = rec, None, spec
        self.pending_alpha = None
        self.log.add("sample", self.step_no, var, rec.kind, repr(float(t_inv)))
        try:
            smp.sample(self.state, temperature_inv=t_inv)
        except Exception as e:
            rec.error = f"sample: {type(e).__name__}: {e}"
            self.log.add("sample_raised", type(e).__name__)
        finally:
            self.rec, self.cur, self.spec = None, None, None
        rec.std_after = smp.std.clone()
        rec.hist_after = smp.acceptation_history.clone()
        self.step_no += 1
        return rec

    def reference_after(self, rec: StepRecord):
        """Value the latent variable must hold after the step, replayed on plain tensors from the recorded
        changes and the observed decisions ("accepted => proposed, rejected => previous")."""
        cur = rec.pre_indep[rec.var]
        for b in rec.blocks:
            if b.change is None or b.accepted is None:
                return None
            if rec.is_ind:
                prop = cur + b.change
                acc = b.accepted.reshape((-1,) + (1,) * (cur.ndim - 1)).to(torch.bool)
                cur = torch.where(acc, prop, cur)
            else:
                if b.idx == ():
                    prop = cur + b.change
                else:
                    prop = cur.index_put(tuple(map(torch.tensor, b.idx)), b.change, accumulate=True)
                if bool(b.accepted):
                    cur = prop
        return cur

    def mstep(self, iteration: int):
        self.algo.current_iteration = iteration
        self.log.add("mstep", iteration)
        with warnings.catch_warnings():
            warnings.simplefilter("ignore")
            self.algo._maximization_step(self.model, self.state)


def gen_world_cfg(st: Stream, *, kinds=None, ahl_choices=(25,), allow_mixture=False) -> dict:
    kinds = list(kinds or [k for k in workload.MODEL_KINDS if allow_mixture or k != "mixture"])
    kind = st.choice(kinds)
    cfg = {
        "kind": kind, "n": st.choice([5, 7]), "nf": 3, "max_visits": st.randint(2, 4), "missing": st.choice([0.0, 0.15, 0.3]),
        "whole_ft": st.bernoulli(0.2), "gseed": st.u64() & 0xFFFFFFFF,
        "sampler_pop": st.choice(["Gibbs", "Gibbs", "FastGibbs", "Metropolis-Hastings"]),
        "ahl": st.choice(list(ahl_choices)),
        "random_order_dimension": st.bernoulli(0.8),
    }
    _vary_shape(st, cfg)
    return cfg


def _vary_shape(st: Stream, cfg: dict) -> None:
    """Swarm dimensions added late (drawn last so that earlier plan fields keep their values): number of features, number of sources,
    random initial parameters, fixed order of the variables."""
    cfg["nf"] = st.choice([3, 3, 2, 4])
    if cfg["nf"] == 4:
        cfg["sd"] = st.choice([1, 2, 3])
    cfg["init_random"] = st.bernoulli(0.2)
    if st.bernoulli(0.25):
        cfg["random_order_variables"] = False
    if st.bernoulli(0.15):
        cfg["baseline_axis"] = True
